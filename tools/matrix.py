#!/venv/bin/python
"""Sensitivity matrix: apply every seeded change to a scratch copy of the
repository and run the quick checks against it.

  tools/matrix.py <repo-copy> [--props C01,C02,...] [--only C04-1,...] [--out FILE]

<repo-copy> must be a git checkout that is NOT /repo (e.g. the snapshot a
`vp run --with-repo` provides in $VP_RUN_REPO).  For each seeded/<id>/ the
patch is applied there, the checks run with VERIF_REPO=<repo-copy> and
VERIF_NOEVIDENCE=1, and the patch is reverted.  Result: JSON
{mutant: {prop: {"rc": .., "sig": ..}}}.
"""
import json, os, subprocess, sys, time
VERIF = os.path.dirname(os.path.dirname(os.path.abspath(__file__)))
ALL = "C01 C02 C03 C04 C05 C06 C07 C08 C09 C14 C15 C16 C17 C18 C19".split()


def main():
    repo = os.path.abspath(sys.argv[1])
    assert repo != "/repo"
    props, only, out = ALL, None, os.path.join(VERIF, "matrix.json")
    a = sys.argv[2:]
    while a:
        if a[0] == "--props":
            props = a[1].split(","); a = a[2:]
        elif a[0] == "--only":
            only = a[1].split(","); a = a[2:]
        elif a[0] == "--out":
            out = a[1]; a = a[2:]
        else:
            raise SystemExit("bad arg " + a[0])
    env = dict(os.environ, VERIF_REPO=repo, VERIF_NOEVIDENCE="1")
    res = {}
    if os.path.exists(out):
        res = json.load(open(out))
    names = sorted(os.listdir(os.path.join(VERIF, "seeded")))
    for name in ["(unchanged)"] + names:
        if only and name not in only:
            continue
        if name in res and all(p in res[name] for p in props):
            continue
        subprocess.run(["git", "-C", repo, "checkout", "-q", "--", "."], check=True)
        if name != "(unchanged)":
            patch = os.path.join(VERIF, "seeded", name, "patch.diff")
            r = subprocess.run(["git", "-C", repo, "apply", patch])
            if r.returncode != 0:
                res[name] = {"error": "patch does not apply"}
                continue
        row = res.setdefault(name, {})
        for p in props:
            if p in row:
                continue
            t0 = time.time()
            r = subprocess.run([os.path.join(VERIF, "check"), p, "--tier", "quick"],
                               cwd=VERIF, env=env, capture_output=True, text=True)
            sig = None
            for line in r.stdout.splitlines():
                if line.startswith("violation signature:"):
                    sig = line[len("violation signature:"):].strip()[:300]
                    break
            row[p] = {"rc": r.returncode, "sig": sig, "s": round(time.time() - t0)}
            print(name, p, row[p]); sys.stdout.flush()
            json.dump(res, open(out, "w"), indent=1, sort_keys=True)
    subprocess.run(["git", "-C", repo, "checkout", "-q", "--", "."], check=True)


if __name__ == "__main__":
    main()

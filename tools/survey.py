#!/venv/bin/python
"""Development aid: run plans [start, start+n) of a property and list EVERY
violation / crash signature with a count and one example (the checks stop
after a handful).  Writes no evidence, reads no known-findings file.

  tools/survey.py C17 20000 [--tier quick] [--variant plain|asan] [--start 0]
                  [--seed 0] [--save DIR]   (DIR: one replay file per signature)
"""
import json
import os
import sys
import time

VERIF = os.path.dirname(os.path.dirname(os.path.abspath(__file__)))
sys.path.insert(0, VERIF)
if os.environ.get("PYTHONHASHSEED") != "0":
    os.environ["PYTHONHASHSEED"] = "0"
    os.execv(sys.executable, [sys.executable] + sys.argv)

from sim import build, core, runner  # noqa: E402


def main():
    a = sys.argv[1:]
    prop, n = a[0], int(a[1])
    opt = {"--tier": "quick", "--variant": "plain", "--start": "0",
           "--seed": "0", "--save": "", "--nproc": "12"}
    i = 2
    while i < len(a):
        opt[a[i]] = a[i + 1]
        i += 2
    tier, variant = opt["--tier"], opt["--variant"]
    start, seed = int(opt["--start"]), int(opt["--seed"])
    if variant == "asan":
        start += runner.ASAN_OFFSET
    nproc = int(opt["--nproc"])
    build.ensure(variant)
    workdir = os.path.join(build.BUILD_ROOT, "survey-%d" % os.getpid())
    os.makedirs(workdir, exist_ok=True)
    pool = runner.Pool(workdir)
    chunk = max(20, min(500, n // (nproc * 4) or 1))
    pending = [(s, min(chunk, start + n - s))
               for s in range(start, start + n, chunk)]
    running = []
    sigs = {}
    runs = 0
    t0 = time.time()

    def note(sig, i, detail, plan):
        key = json.dumps(sig, sort_keys=True)
        e = sigs.setdefault(key, [0, i, detail, plan])
        e[0] += 1

    while pending or running:
        while pending and len(running) < nproc:
            s, c = pending.pop(0)
            h = pool.spawn({"kind": "batch", "prop": prop, "tier": tier,
                            "root_seed": seed, "start": s, "count": c,
                            "hang_s": 900, "known": [],
                            "max_violations": 10 ** 6}, variant)
            h["meta"] = (s, c)
            running.append(h)
        time.sleep(0.05)
        still = []
        for h in running:
            if h["p"].poll() is None:
                still.append(h)
                continue
            s, c = h["meta"]
            kind, out = pool.result(h)
            if kind == "harness":
                print("HARNESS", str(out)[-2000:])
                continue
            if kind == "crash":
                cur = out["cur"]
                if cur is None:
                    print("died before first run", out["err"][-1000:])
                    continue
                sig = runner.crash_signature(out)
                note(sig, cur, out["err"][-2500:],
                     core.make_plan(prop, seed, cur, tier))
                runs += cur - s + 1
                rest = s + c - (cur + 1)
                if rest > 0:
                    pending.insert(0, (cur + 1, rest))
                continue
            runs += out["runs"]
            for v in out["violations"]:
                note(v["sig"], v["i"], v["detail"], v["plan"])
        running = still
    print("%s %s: %d runs in %.0fs, %d signatures" % (
        prop, variant, runs, time.time() - t0, len(sigs)))
    for key, (cnt, i, detail, plan) in sorted(sigs.items(),
                                              key=lambda kv: -kv[1][0]):
        print("\n%6d x %s (first run %d)\n    %s" % (
            cnt, key, i, detail[:int(os.environ.get("DETAIL", "700"))]))
        if opt["--save"]:
            os.makedirs(opt["--save"], exist_ok=True)
            fn = os.path.join(opt["--save"], "%s-%s-%d.json" % (
                prop, variant, core._h(key) % 10 ** 8))
            with open(fn, "w") as f:
                json.dump({"property": prop, "variant": variant,
                           "plan": plan, "signature": json.loads(key),
                           "detail": detail[:3000]}, f, sort_keys=True)
            print("    saved", fn)
    import shutil
    shutil.rmtree(workdir, ignore_errors=True)


if __name__ == "__main__":
    main()

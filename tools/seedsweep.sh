#!/bin/bash
# usage: tools/seedsweep.sh <first> <last> [tier]   -- runs every check for VERIF_SEED in [first,last]
# (development aid: looks for alarms on the unchanged tree under other seeds; writes no evidence)
tier=${3:-quick}
for s in $(seq $1 $2); do
  for p in C01 C02 C03 C04 C05 C06 C07 C08 C09 C14 C15 C16 C17 C18 C19; do
    out=$(VERIF_SEED=$s VERIF_NOEVIDENCE=1 ./check $p --tier $tier 2>&1); rc=$?
    echo "seed=$s $p rc=$rc $(echo "$out" | tail -1 | cut -c1-120)"
    if [ $rc -ne 0 ]; then echo "$out" | grep -E "^(violation|detail|VIOL|HARN)" | cut -c1-600; cp -r replays replays-seed$s-$p 2>/dev/null; fi
  done
done

#!/bin/bash
# usage: tools/try_mutant.sh <patch.diff> <prop> [<prop>...]
# Applies the patch to a scratch worktree of /repo HEAD (default /tmp/mrepo,
# created on demand; /repo itself stays untouched so that background runs are
# not disturbed), runs the quick checks against it (VERIF_REPO), reverts.
# TIER=thorough for the other tier.  Writes no evidence.
set -u
patch=$1; shift
M=${MREPO:-/tmp/mrepo}
if [ ! -d $M ]; then git -C /repo worktree add --detach $M HEAD >/dev/null 2>&1 || exit 2; fi
git -C $M checkout -q --detach $(git -C /repo rev-parse HEAD) 2>/dev/null
git -C $M checkout -q -- . 
if ! git -C $M apply "$patch" 2>/tmp/apply.err; then
  if ! git -C $M apply --3way "$patch" 2>>/tmp/apply.err; then
    echo "PATCH DOES NOT APPLY"; tail -3 /tmp/apply.err; git -C $M reset -q --hard HEAD; exit 3
  fi
  git -C $M reset -q
fi
trap 'git -C $M checkout -q -- . ' EXIT
cd "$(dirname "$(readlink -f "$0")")/.."
for p in "$@"; do
  out=$(VERIF_REPO=$M VERIF_NOEVIDENCE=1 timeout 1800 ./check $p --tier ${TIER:-quick} 2>&1)
  rc=$?
  echo "== $p rc=$rc: $(echo "$out" | grep -E 'VIOLATION|HARNESS' | head -3 | cut -c1-200)"
  echo "$out" | grep -E "^(violation signature|detail)" | head -4 | cut -c1-300
done

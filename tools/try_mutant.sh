#!/bin/bash
# usage: tools/try_mutant.sh <patch.diff> <prop> [<prop>...]
# applies the patch to /repo's working tree, runs the quick checks, reverts.
set -u
patch=$1; shift
cd /repo || exit 2
if [ -n "$(git status --porcelain --untracked-files=no)" ]; then echo "repo dirty"; exit 2; fi
if ! git apply "$patch" 2>/tmp/apply.err; then
  if ! git apply --3way "$patch" 2>>/tmp/apply.err; then
    echo "PATCH DOES NOT APPLY"; tail -3 /tmp/apply.err; git reset -q --hard HEAD; exit 3
  fi
  git reset -q   # unstage what --3way staged
fi
trap 'cd /repo && git checkout -- . ' EXIT
cd /verif
for p in "$@"; do
  out=$(VERIF_NOEVIDENCE=1 timeout 900 ./check $p --tier ${TIER:-quick} 2>&1)
  rc=$?
  echo "== $p rc=$rc: $(echo "$out" | grep -E 'VIOLATION|HARNESS' | head -3 | cut -c1-200)"
  echo "$out" | grep -E "^(violation signature|detail)" | head -4 | cut -c1-300
done

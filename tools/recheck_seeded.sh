#!/bin/bash
# usage: tools/recheck_seeded.sh [id ...]   (default: every seeded/<id>)
# Re-runs, for each seeded change, the quick tier of the checks its meta.json
# names under caught_by_quick_checks, against a scratch worktree (tools/try_mutant.sh),
# and prints one line per (change, check): CAUGHT / MISSED / HARNESS / NOAPPLY.
cd "$(dirname "$(readlink -f "$0")")/.."
ids="$@"; [ -z "$ids" ] && ids=$(ls seeded)
for id in $ids; do
  props=$(/venv/bin/python -c "import json;print(' '.join(json.load(open('seeded/$id/meta.json')).get('caught_by_quick_checks',[])))")
  for p in $props; do
    out=$(tools/try_mutant.sh $PWD/seeded/$id/patch.diff $p 2>&1)
    if echo "$out" | grep -q "PATCH DOES NOT APPLY"; then st=NOAPPLY
    elif echo "$out" | grep -q "rc=1: VIOLATION"; then st=CAUGHT
    elif echo "$out" | grep -q "rc=2"; then st=HARNESS
    else st=MISSED; fi
    echo "$id $p $st $(echo "$out" | grep -m1 '^violation signature' | cut -c1-160)"
  done
done

#!/venv/bin/python
"""usage: tools/import_mutant.py <prop> <k> [caught-by ...]
copies a confirmed seeded change from /tmp/mut/out into /verif/seeded/<prop>-<k>/"""
import json, os, shutil, sys
prop, k = sys.argv[1], sys.argv[2]
caught = sys.argv[3:]
src = os.environ.get("MUT", "/tmp/mut") + "/out/%s/%s" % (prop, k)
dst = "/verif/seeded/%s-%s" % (prop, k)
conf = json.load(open(os.environ.get("MUT", "/tmp/mut") + "/confirm/%s-%s.json" % (prop, k)))
assert conf["applies"] and conf["builds"] and conf["suite"].startswith("1468 passed") \
    and conf["demo_with_rc"] != 0 and conf["demo_without_rc"] == 0, conf
os.makedirs(dst, exist_ok=True)
if os.path.exists(src + "/patch.rebased.diff"):
    shutil.copy(src + "/patch.rebased.diff", dst + "/patch.diff")
    shutil.copy(src + "/patch.diff", dst + "/patch.orig.diff")
else:
    shutil.copy(src + "/patch.diff", dst + "/patch.diff")
shutil.copy(src + "/demo.py", dst + "/demo.py")
shutil.copy(src + "/notes.md", dst + "/notes.md")
meta_path = dst + "/meta.json"
meta = json.load(open(meta_path)) if os.path.exists(meta_path) else {}
notes = open(src + "/notes.md").read()
meta.update({
    "id": "%s-%s" % (prop, k),
    "breaks_property": prop,
    "origin": "independent sub-agent given only the property text and a scratch worktree",
    "needs_to_manifest": meta.get("needs_to_manifest") or "see notes.md",
    "confirmed": {
        "repo_head": conf["head"],
        "what_i_ran": "tools/confirm_mutant.sh %s %s: fresh scratch worktree of /repo HEAD, git apply, build_ext --inplace, pinned pytest command, demo.py with the change, git checkout + rebuild, demo.py without it" % (prop, k),
        "suite_with_change": conf["suite"],
        "demo_exit_with_change": conf["demo_with_rc"],
        "demo_exit_without_change": conf["demo_without_rc"],
    },
})
if caught:
    meta["caught_by_quick_checks"] = caught
json.dump(meta, open(meta_path, "w"), indent=1, sort_keys=True)
print(dst)

#!/bin/bash
# usage: tools/confirm_mutant.sh <prop> <k>
# Confirms a seeded change independently in a scratch worktree of /repo HEAD:
# applies, builds, runs the pinned suite, runs the demo with and without it.
# Writes ${MUT:-/tmp/mut}/confirm/<prop>-<k>.json and removes the worktree.
set -u
prop=$1; k=$2
[ "$prop" = C17 ] && export BTREES_VERIF=1
src=${MUT:-/tmp/mut}/out/$prop/$k
patch=$src/patch.diff
[ -f $src/patch.rebased.diff ] && patch=$src/patch.rebased.diff
wt=${MUT:-/tmp/mut}/confirm-wt-$prop-$k
mkdir -p ${MUT:-/tmp/mut}/confirm
git -C /repo worktree add --detach $wt HEAD >/dev/null 2>&1 || exit 2
cd $wt
res() { echo "{\"prop\":\"$prop\",\"k\":$k,\"applies\":$1,\"builds\":$2,\"suite\":\"$3\",\"demo_with_rc\":$4,\"demo_without_rc\":$5,\"head\":\"$(git -C /repo rev-parse --short HEAD)\",\"patch\":\"$(basename $patch)\"}" > ${MUT:-/tmp/mut}/confirm/$prop-$k.json; }
if ! git apply $patch 2>/dev/null; then res false false "" -1 -1; cd /; git -C /repo worktree remove --force $wt; exit 0; fi
if ! /venv/bin/python setup.py -q build_ext --inplace -j4 >${MUT:-/tmp/mut}/confirm/$prop-$k.build.log 2>&1; then res true false "" -1 -1; cd /; git -C /repo worktree remove --force $wt; exit 0; fi
suite=$(PYTHONPATH=$wt/src /venv/bin/python -m pytest -q -p no:cacheprovider --timeout=900 --continue-on-collection-errors 2>&1 | tail -1 | sed 's/"//g')
(cd /tmp && PYTHONPATH=$wt/src timeout 600 /venv/bin/python $src/demo.py >${MUT:-/tmp/mut}/confirm/$prop-$k.with.log 2>&1); w=$?
git checkout -q -- . && /venv/bin/python setup.py -q build_ext --inplace -j4 >/dev/null 2>&1
(cd /tmp && PYTHONPATH=$wt/src timeout 600 /venv/bin/python $src/demo.py >${MUT:-/tmp/mut}/confirm/$prop-$k.without.log 2>&1); wo=$?
res true true "$suite" $w $wo
cd /; git -C /repo worktree remove --force $wt

#!/bin/bash
# usage: tools/run_benign.sh [k ...]   (default: every benign/<k>)
# Runs every quick check against each behaviour-preserving change under
# benign/ (scratch worktree, /repo untouched).  Every line must say rc=0:
# a check that raises an alarm on one of these is a false alarm.
cd "$(dirname "$(readlink -f "$0")")/.."
ks="$@"; [ -z "$ks" ] && ks=$(ls benign | sort -n)
for k in $ks; do
  echo "#### benign-$k"
  MREPO=${MREPO:-/tmp/mrepo_benign} tools/try_mutant.sh $PWD/benign/$k/patch.diff C01 C02 C03 C04 C05 C06 C07 C08 C09 C14 C15 C16 C17 C18 C19 2>&1 | cut -c1-600
done
echo BENIGN-DONE

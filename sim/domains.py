"""Families, key/value universes, classes.

A *universe* is a small ascending list of keys (and a small list of values) a
run draws from; plans refer to keys and values by universe index, so plans are
plain JSON and shrink towards small indices.
"""
import sys

from .keys import HK, TV

FAMILIES = ("IO II IF IU UO UU UF UI LO LL LF LQ QO QQ QF QL "
            "OO OI OU OL OQ fs").split()
KINDS = ("BTree", "Bucket", "TreeSet", "Set")
OBJECT_KEY_FAMILIES = ("OO", "OI", "OU", "OL", "OQ")
INT_KEY_FAMILIES = tuple(f for f in FAMILIES if f[0] in "IULQ")

INT_RANGE = {
    "I": (-2 ** 31, 2 ** 31 - 1),
    "U": (0, 2 ** 32 - 1),
    "L": (-2 ** 63, 2 ** 63 - 1),
    "Q": (0, 2 ** 64 - 1),
}


def int_universe(code, n, ext):
    lo, hi = INT_RANGE[code]
    if lo < 0:
        dense = list(range(-(n // 3), n - n // 3))
    else:
        dense = list(range(0, n))
    if not ext:
        return dense
    if code == "I":
        extra = [lo, lo + 1, hi - 1, hi]
    elif code == "U":
        extra = [2 ** 31 - 1, 2 ** 31, hi - 1, hi]
    elif code == "L":
        extra = [lo, lo + 1, -2 ** 31 - 1, 2 ** 31, hi - 1, hi]
    else:
        extra = [2 ** 32, 2 ** 63 - 1, 2 ** 63, hi - 1, hi]
    return sorted(set(dense) | set(extra))


def int_values(code, n):
    lo, hi = INT_RANGE[code]
    base = [0, 1, 2, 3, 5, 7, 11][:max(2, n - 2)]
    vals = set(base) | {lo, hi}
    return sorted(vals)


# (all exactly representable in single precision; +-inf are float32 values)
FLOAT_VALUES = [-2.5, 0.0, float("inf"), 0.125, float("-inf"), 1.0, 7.75,
                16777216.0]


class Domain(object):
    def __init__(self, cfg):
        self.cfg = cfg
        fam = cfg["fam"]
        self.fam = fam
        self.kcode = fam[0]
        self.vcode = fam[1]
        nk = cfg.get("nk", 12)
        ext = cfg.get("ext", False)
        kfl = cfg.get("kflavor", "int")
        self.kflavor = kfl
        self._hk = None
        if self.kcode in INT_RANGE:
            self.keys = int_universe(self.kcode, nk, ext)
        elif self.kcode == "f":
            ks = [bytes([i >> 8 & 255, (i * 3) & 255]) for i in range(nk)]
            if ext:
                ks += [b"\x00\x00", b"\xff\xff", b"\xff\xfe"]
            self.keys = sorted(set(ks))
        else:
            if kfl == "int":
                ks = list(range(-(nk // 3), nk - nk // 3))
            elif kfl == "str":
                ks = ["k%05d" % i for i in range(nk)]
            elif kfl == "tuple":
                ks = [(i // 3, i % 3) for i in range(nk)]
            elif kfl == "hk":
                ks = [HK(i) for i in range(nk)]
            else:
                raise ValueError(kfl)
            if cfg.get("none") and kfl != "hk":
                ks = [None] + ks
            self.keys = ks
        self.nkeys = len(self.keys)
        # values
        nv = cfg.get("nv", 4)
        vfl = cfg.get("vflavor", "int")
        self.vflavor = vfl
        if self.vcode in INT_RANGE:
            self.vals = int_values(self.vcode, nv)
        elif self.vcode == "F":
            self.vals = FLOAT_VALUES[:max(2, nv)]
            if cfg.get("vx"):
                # distinct float32 values closer together than FLT_EPSILON
                # (0.0 is among the first two)
                self.vals = self.vals + [2.0 ** -30, 3 * 2.0 ** -31]
            if cfg.get("vnan"):
                self.vals = self.vals + [float("nan")]
        elif self.vcode == "s":
            self.vals = [bytes([65 + j]) * 6 for j in range(max(2, nv))]
            if cfg.get("vx"):
                # binary values: NUL bytes, equal up to the first NUL
                self.vals = self.vals + [b"\x00\x00\x00\x00\x00\x01",
                                         b"\x00\x00\x00\x00\x00\x02",
                                         b"AB\x00CDE", b"AB\x00CDF"]
        else:
            if vfl == "int":
                vs = [100 + j for j in range(nv)]
            elif vfl == "str":
                vs = ["v%d" % j for j in range(nv)]
            elif vfl == "tv":
                vs = [TV(j) for j in range(nv)]
            elif vfl == "mlist":
                # MUTABLE values: every write stores a fresh list (val()
                # copies), which an operation may later change in place and
                # assign again under the same key
                vs = [[j] for j in range(nv)]
            elif vfl == "fset":
                # unequal but unordered (neither < nor >) values
                vs = [frozenset([j]) for j in range(nv)]
            else:
                raise ValueError(vfl)
            if cfg.get("vnone") and vfl != "tv":
                vs = [None] + vs
            self.vals = vs
        self.nvals = len(self.vals)
        self._kindex = None

    # -- keys
    def key(self, i):
        return self.keys[i]

    def val(self, j):
        if self.vflavor == "mlist":
            return list(self.vals[j])
        return self.vals[j]

    def sortkey(self, k):
        """total order on real keys consistent with the package's rule."""
        if k is None:
            return (0, 0)
        if type(k) is HK:
            return (1, k.n)
        return (1, k)

    def kid(self, k):
        """hashable identity of a real key by value"""
        if type(k) is HK:
            return ("hk", k.n)
        return k

    def index_of(self, k):
        if self._kindex is None:
            self._kindex = {self.kid(x): i for i, x in enumerate(self.keys)}
        return self._kindex.get(self.kid(k))

    def vid(self, v):
        if type(v) is TV:
            return ("tv", v.n)
        if type(v) is list:
            return ("ml",) + tuple(v)
        return v

    # "plain" identities: equal to kid()/vid() by value but never the object
    # itself (the reference ledger must not see the harness's own references)
    def pkid(self, k):
        return _detach(self.kid(k))

    def pvid(self, v):
        return _detach(self.vid(v))

    # -- classes
    @property
    def mod(self):
        return sys.modules["BTrees.%sBTree" % self.fam]

    def cls(self, kind, impl):
        name = self.fam + kind + ("Py" if impl == "py" else "")
        return getattr(self.mod, name)

    def new(self, kind, impl):
        if self.cfg.get("sub"):
            # the container is an instance of a trivial user subclass
            from . import subcls
            if self.cfg["sub"] == "leaf" and is_tree(kind):
                # ... which also names a leaf class of its own
                return subcls.get_custom(self.fam, kind, impl)()
            return subcls.get(self.fam, kind, impl)()
        return self.cls(kind, impl)()

    def set_node_sizes(self, leaf, internal):
        """sizes live on the classes themselves (process-global)"""
        for kind in ("BTree", "TreeSet"):
            for impl in ("c", "py"):
                c = self.cls(kind, impl)
                if leaf is None:
                    leaf_, int_ = default_sizes(self.fam)
                else:
                    leaf_, int_ = leaf, internal
                c.max_leaf_size = leaf_
                c.max_internal_size = int_


def _detach(x):
    if isinstance(x, str):
        return ("s", "".join([x, ""]) if not x else x[:1] + x[1:])
    if isinstance(x, tuple):
        return ("t",) + tuple(_detach(y) for y in x)
    if isinstance(x, bytes):
        return ("b", x.hex())
    if isinstance(x, frozenset):
        return ("fs",) + tuple(sorted(x))
    return x


def default_sizes(fam):
    k, v = fam[0], fam[1]
    if k == "O":
        tree, bucket = 250, 60
    elif k == "f":
        tree, bucket = 500, 500
    else:
        tree, bucket = 500, 120
    if v == "O":
        bucket //= 2
    if k == "f":
        bucket = 500
    return bucket, tree


def is_mapping(kind):
    return kind in ("BTree", "Bucket")


def is_tree(kind):
    return kind in ("BTree", "TreeSet")


def draw_domain_cfg(rng, fam=None, hk=False, small=True):
    """the per-run domain configuration (pure function of rng)."""
    fam = fam or rng.choice(FAMILIES)
    cfg = {"fam": fam,
           "nk": rng.choice([6, 8, 10, 12, 16, 20, 24]) if small
           else rng.choice([8, 12, 16]),
           "ext": rng.random() < 0.35,
           "nv": rng.choice([2, 3, 4, 5])}
    if fam[0] == "O":
        if hk:
            cfg["kflavor"] = "hk"
        else:
            cfg["kflavor"] = rng.choice(["int", "int", "str", "tuple"])
            cfg["none"] = rng.random() < 0.4
    if fam[1] == "O":
        cfg["vflavor"] = rng.choice(["int", "str", "fset"])
        cfg["vnone"] = rng.random() < 0.3
    if fam[1] in "Fs":
        cfg["vx"] = rng.random() < 0.4
    return cfg


def draw_sizes(rng, p_default=0.12):
    if rng.random() < p_default:
        return None, None
    return rng.choice([2, 2, 3, 3, 4, 5, 7]), rng.choice([2, 2, 3, 3, 4, 5])

"""Shared run-time core: seeds, violations, per-run context, registry."""
import hashlib
import importlib
import json
import random

MASK = (1 << 64) - 1


def splitmix64(x):
    x = (x + 0x9E3779B97F4A7C15) & MASK
    z = x
    z = ((z ^ (z >> 30)) * 0xBF58476D1CE4E5B9) & MASK
    z = ((z ^ (z >> 27)) * 0x94D049BB133111EB) & MASK
    return z ^ (z >> 31)


def run_seed(root, prop, i):
    h = int.from_bytes(hashlib.sha256(prop.encode()).digest()[:8], "big")
    return splitmix64(splitmix64(root & MASK) ^ splitmix64(h) ^
                      splitmix64(i + 0x1234567))


class Violation(Exception):
    """A property violation found by an oracle.  sig: small JSON dict that
    identifies the class of failure (never message texts or addresses)."""

    def __init__(self, sig, detail=""):
        Exception.__init__(self, json.dumps(sig, sort_keys=True))
        self.sig = sig
        self.detail = detail


class Precondition(Exception):
    """The run cannot evaluate its property (not a violation); counted."""


class Ctx(object):
    """Per-run context: event log digest, step counter, coverage."""

    def __init__(self, variant="plain", collect=True):
        self.variant = variant
        self.h = hashlib.sha256()
        self.steps = 0
        self.faults = {}
        self.probes = {}
        self.shapes = set()
        self.inter = set()
        self.nontrivial = set()
        self.collect = collect
        self.trace = None       # optional list for debugging

    def ev(self, *items):
        self.steps += 1
        s = repr(items)
        self.h.update(s.encode("utf-8", "backslashreplace"))
        if self.trace is not None:
            self.trace.append(s)

    def digest(self):
        return self.h.hexdigest()[:24]

    def fault(self, kind, n=1):
        self.faults[kind] = self.faults.get(kind, 0) + n

    def probe(self, name, n=1):
        self.probes[name] = self.probes.get(name, 0) + n

    def shape(self, sig):
        self.shapes.add(_h(sig))

    def interleaving(self, tup):
        self.inter.add(_h(tup))

    def nontriv(self, tup):
        self.nontrivial.add(_h(tup))


def _h(x):
    return int.from_bytes(
        hashlib.blake2b(repr(x).encode(), digest_size=8).digest(), "big")


SCENARIOS = {
    "C01": "refmodel", "C02": "ranges", "C03": "invariants",
    "C04": "persist", "C05": "evict", "C06": "codec", "C07": "leafmerge",
    "C08": "occ", "C09": "twin", "C14": "cmpfault", "C15": "itermut",
    "C16": "refs", "C17": "oom", "C18": "corrupt", "C19": "length",
}


def scenario(prop):
    return importlib.import_module("sim.scenarios." + SCENARIOS[prop])


def make_plan(prop, root_seed, i, tier):
    scn = scenario(prop)
    seed = run_seed(root_seed, prop, i)
    rng = random.Random(seed)
    plan = scn.plan(rng, tier)
    plan["_seed"] = seed
    plan["_i"] = i
    plan["_prop"] = prop
    # plans must be pure JSON
    return json.loads(json.dumps(plan))


# exception classes that only a mistake in the harness's own code produces
_HARNESS_ONLY = (NameError, ImportError, SyntaxError, RecursionError)


def execute(prop, plan, variant="plain", trace=False):
    """-> result dict; never raises for violations"""
    scn = scenario(prop)
    ctx = Ctx(variant)
    if trace:
        ctx.trace = []
    res = {"violation": None, "precondition": False}
    try:
        scn.execute(plan, ctx)
    except Violation as v:
        res["violation"] = {"sig": v.sig, "detail": v.detail}
    except Precondition as p:
        res["precondition"] = True
        res["why"] = str(p)
    except Exception as e:
        # an exception nobody expected: if it was raised by the package's own
        # Python code (a frame inside the BTrees overlay) it is the package
        # misbehaving where the scenario had no reason to guard -- a
        # violation of the scenario's property; anything else is a harness
        # error and is re-raised
        import traceback
        where = None
        frames = traceback.extract_tb(e.__traceback__)
        for fs in frames:
            if "/BTrees/" in fs.filename.replace("\\", "/"):
                where = fs.name
        if where is None and frames and not isinstance(e, _HARNESS_ONLY):
            # The C extension has no Python frames.  An exception that was
            # not raised by a `raise` statement of the harness itself came
            # out of a call the harness made -- on the unchanged tree no
            # scenario lets one escape, so on a changed tree it is the
            # package's doing (an unexpected SystemError / AssertionError /
            # TypeError of an operation, a checker, a state call).  What the
            # harness raises on purpose (unknown op, broken plan) stays a
            # harness error.
            tb = e.__traceback__
            while tb.tb_next is not None:
                tb = tb.tb_next
            import dis
            opname = None
            try:
                for ins in dis.get_instructions(tb.tb_frame.f_code):
                    if ins.offset == tb.tb_lasti:
                        opname = ins.opname
                        break
            except Exception:
                pass
            if opname not in ("RAISE_VARARGS", "RERAISE"):
                where = "c-call:" + frames[-1].name
        if where is None or isinstance(e, (MemoryError, RecursionError)):
            raise
        res["violation"] = {
            "sig": {"oracle": "unexpected-exception",
                    "exc": type(e).__name__, "where": where},
            "detail": "".join(traceback.format_exception(
                type(e), e, e.__traceback__))[-1500:]}
    res["digest"] = ctx.digest()
    res["steps"] = ctx.steps
    res["ctx"] = ctx
    return res

"""The simulated persistence world: an MVCC storage with two-phase commit and
conflict resolution, and a Connection (data manager) that owns a *real*
persistent.PickleCache.  ZODB itself is not installed in this sandbox; this is
the stub described in DESIGN.md section 1.3.  It contains no cleverness.

Nothing here reads a clock, a PRNG or the environment.
"""
import io
import pickle
import sys

from persistent import Persistent, PickleCache

GHOST, UPTODATE, CHANGED, STICKY = -1, 0, 1, 2


class ConflictError(Exception):
    """Stand-in for ZODB.POSException.ConflictError."""


class SimLoadError(Exception):
    """The storage could not deliver a record (I/O error, closed connection)."""


class SimPOSKeyError(KeyError):
    """... or does not have it (ZODB's POSKeyError IS a KeyError, which the
    package must not mistake for 'key not in the container')."""


class ReadConflictError(ConflictError):
    """Stand-in for ZODB.POSException.ReadConflictError."""


class CrashInCommit(Exception):
    """Raised by commit(crash='after_vote'): the process died before finish."""


class PersistentReference(object):
    """Stand-in for ZODB.ConflictResolution.PersistentReference: equal only to
    a reference to the same oid; comparing with anything else raises
    ValueError ("can't reliably compare")."""
    __slots__ = ("oid", "klass")

    def __init__(self, oid, klass):
        self.oid = oid
        self.klass = klass

    def _cmp(self, other):
        if self is other or (isinstance(other, PersistentReference)
                             and other.oid == self.oid):
            return 0
        raise ValueError(
            "can't reliably compare against different PersistentReferences")

    def __eq__(self, other):
        return self._cmp(other) == 0

    def __ne__(self, other):
        return self._cmp(other) != 0

    def __lt__(self, other):
        return self._cmp(other) < 0

    __gt__ = __le__ = __ge__ = __lt__

    __hash__ = None

    def __repr__(self):
        return "PR(%d)" % int.from_bytes(self.oid, "big")


def canonical_class(obj):
    """(module, name) a record is written under: BTrees classes always under
    their canonical (C) names, whatever implementation produced them."""
    t = type(obj)
    name = t.__name__
    mod = t.__module__
    if (mod.startswith("BTrees.") or mod == "sim.subcls") and \
            name.endswith("Py"):
        name = name[:-2]
    # (a name object of its own per reference, for every class alike: static
    # C types make a new str per `__name__` lookup, heap types -- every
    # Python class, every user subclass -- hand out one shared object, and
    # pickle memoises by identity; the records of two deployments must not
    # differ by that)
    return (mod, "".join([name[:1], name[1:]]))


def resolve_class(modname, name, impl):
    mod = sys.modules.get(modname)
    if mod is None:
        __import__(modname)
        mod = sys.modules[modname]
    if modname == "sim.subcls":
        return getattr(mod, name + ("Py" if impl == "py" else ""))
    if impl == "py" and modname.startswith("BTrees.") and \
            hasattr(mod, name + "Py"):
        return getattr(mod, name + "Py")
    return getattr(mod, name)


class SimStorage(object):
    """{oid: [(tid, bytes), ...]} with monotone integer tids."""

    def __init__(self, protocol=3):
        self.revs = {}
        self.tid = 0
        self.next_oid = 1
        self.protocol = protocol
        self.commit_log = []      # [(tid, [oids])]
        self.resolver_log = []    # [(clsname, old, committed, new, outcome)]
        self.resolve_hook = None  # optional callable(record) for scenarios
        self.resolve_impl = None  # None: use the committing connection's impl

    # -- reading
    def new_oid(self):
        o = self.next_oid
        self.next_oid += 1
        return o.to_bytes(8, "big")

    def last_tid(self, oid):
        r = self.revs.get(oid)
        return r[-1][0] if r else None

    def load_before(self, oid, tid):
        """latest revision with rev.tid < tid -> (data, serial)"""
        r = self.revs.get(oid)
        if r:
            for t, data in reversed(r):
                if t < tid:
                    return data, t
        raise KeyError(oid)

    def load_serial(self, oid, serial):
        for t, data in self.revs[oid]:
            if t == serial:
                return data
        raise KeyError((oid, serial))

    def changed_since(self, tid, skip_tids=()):
        out = []
        for t, oids in self.commit_log:
            if t > tid and t not in skip_tids:
                out.extend(oids)
        return out

    # -- two-phase commit
    def tpc_begin(self):
        return {"stores": [], "resolved": []}

    def store(self, txn, oid, serial, data, impl):
        last = self.last_tid(oid)
        if last is not None and serial != last:
            if serial is None:
                raise ConflictError("new object collides", oid)
            data = self.try_resolve(oid, last, serial, data, impl)
            txn["resolved"].append(oid)
        txn["stores"].append((oid, data))

    def check_current(self, txn, oid, serial):
        if self.last_tid(oid) != serial:
            raise ReadConflictError(oid)

    def tpc_finish(self, txn):
        self.tid += 1
        tid = self.tid
        oids = []
        for oid, data in txn["stores"]:
            self.revs.setdefault(oid, []).append((tid, data))
            oids.append(oid)
        self.commit_log.append((tid, oids))
        return tid

    # -- conflict resolution (ZODB.ConflictResolution.tryToResolveConflict)
    def _state(self, data, refs, impl):
        f = io.BytesIO(data)
        u = pickle.Unpickler(f)

        def pl(ref):
            oid, kl = ref
            r = refs.get(oid)
            if r is None:
                r = refs[oid] = PersistentReference(oid, kl)
            return r
        u.persistent_load = pl
        modname, name = u.load()
        state = u.load()
        return (modname, name), state

    def try_resolve(self, oid, committed_serial, old_serial, newdata, impl):
        impl = self.resolve_impl or impl
        rec = {"oid": oid}
        try:
            refs = {}
            (modname, name), new = self._state(newdata, refs, impl)
            klass = resolve_class(modname, name, impl)
            inst = klass.__new__(klass)
            resolve = getattr(inst, "_p_resolveConflict", None)
            if resolve is None:
                raise ConflictError("unresolvable class")
            _, old = self._state(self.load_serial(oid, old_serial), refs, impl)
            _, com = self._state(
                self.load_serial(oid, committed_serial), refs, impl)
            rec.update(cls=name, mod=modname, old=old, com=com, new=new,
                       impl=impl)
            try:
                resolved = resolve(old, com, new)
            except BaseException as e:
                rec["outcome"] = ("exc", type(e).__name__,
                                  getattr(e, "reason", None))
                raise
            rec["outcome"] = ("ok", resolved)
            f = io.BytesIO()
            p = pickle.Pickler(f, self.protocol)

            def pid(o):
                if isinstance(o, PersistentReference):
                    return (o.oid, o.klass)
                return None
            p.persistent_id = pid
            p.dump((modname, name))
            p.dump(resolved)
            return f.getvalue()
        except ConflictError:
            raise
        except Exception as e:
            raise ConflictError("resolution failed: %s" % type(e).__name__)
        finally:
            self.resolver_log.append(rec)
            if self.resolve_hook is not None:
                self.resolve_hook(rec)


class SimConnection(object):
    """The data manager ("jar")."""

    def __init__(self, storage, impl="c", cache_size=100000, log=None):
        self.storage = storage
        self.impl = impl
        self._cache = PickleCache(self, cache_size)
        self.registered = []
        self.read_current = {}
        self.added = {}
        self.snapshot = storage.tid
        self.own_tids = set()
        self.log = log if log is not None else []
        self.closed = False
        self._inlined = None
        # statistics for the scenarios
        self.n_setstate = 0
        self.n_register = 0
        self.n_readcurrent = 0
        # [(kind, oid)]: conditions under which a *known* defect of the
        # package corrupts the stored state (see known_findings.json);
        # "inline-duplicate": a leaf was serialised inline in its parent
        # node's record and also got a record of its own in the same commit
        self.hazards = []

    # -- persistent.interfaces.IPersistentDataManager
    # fault `load-fail`: the n-th load from now on raises
    load_fault = None
    load_fault_exc = SimLoadError
    load_fired = 0

    def setstate(self, obj):
        oid = obj._p_oid
        if self.load_fault is not None:
            self.load_fault -= 1
            if self.load_fault <= 0:
                self.load_fault = None
                self.load_fired += 1
                raise self.load_fault_exc("injected load failure")
        data, serial = self.storage.load_before(oid, self.snapshot + 1)
        self.n_setstate += 1
        self._setstate(obj, data, serial)

    def _setstate(self, obj, data, serial):
        f = io.BytesIO(data)
        u = pickle.Unpickler(f)
        u.persistent_load = self._persistent_load
        u.load()                      # class
        state = u.load()
        obj.__setstate__(state)
        obj._p_serial = _ser(serial)

    def _persistent_load(self, ref):
        oid, (modname, name) = ref
        obj = self._cache.get(oid)
        if obj is not None:
            return obj
        klass = resolve_class(modname, name, self.impl)
        obj = klass.__new__(klass)
        self._cache.new_ghost(oid, obj)
        return obj

    def register(self, obj):
        self.n_register += 1
        self.log.append(("register", obj._p_oid))
        self.registered.append(obj)

    def readCurrent(self, obj):
        self.n_readcurrent += 1
        oid = obj._p_oid
        self.log.append(("readCurrent", oid))
        if obj._p_jar is not self or oid is None:
            raise ValueError("readCurrent on foreign object")
        serial = obj._p_serial
        if serial == _Z64:
            return
        self.read_current[oid] = _unser(serial)

    def oldstate(self, obj, tid):   # pragma: no cover
        raise NotImplementedError

    # -- application side
    def get(self, oid):
        obj = self._cache.get(oid)
        if obj is not None:
            return obj
        data, serial = self.storage.load_before(oid, self.snapshot + 1)
        modname, name = pickle.loads(data)
        klass = resolve_class(modname, name, self.impl)
        obj = klass.__new__(klass)
        self._cache.new_ghost(oid, obj)
        return obj

    def add(self, obj):
        """Make obj persistent (assign oid, enter cache); stored at commit."""
        if obj._p_oid is not None:
            return obj._p_oid
        oid = self.storage.new_oid()
        obj._p_jar = self
        obj._p_oid = oid
        self._cache[oid] = obj
        self.added[oid] = obj
        self.registered.append(obj)
        return oid

    def begin(self):
        """Transaction boundary: new snapshot, invalidate what others wrote."""
        old = self.snapshot
        self.snapshot = self.storage.tid
        for oid in self.storage.changed_since(old, self.own_tids):
            if self._cache.get(oid) is not None:
                self._cache.invalidate(oid)

    def serialize(self, obj, new_objs):
        f = io.BytesIO()
        p = pickle.Pickler(f, self.storage.protocol)

        def pid(o):
            if isinstance(o, Persistent) and not isinstance(o, type):
                if o is obj:
                    return None
                if o._p_oid is None:
                    oid = self.storage.new_oid()
                    o._p_jar = self
                    o._p_oid = oid
                    self._cache[oid] = o
                    self.added[oid] = o
                    new_objs.append(o)
                elif o._p_jar is not self:
                    raise ValueError("cross-connection reference")
                return (o._p_oid, canonical_class(o))
            return None
        p.persistent_id = pid
        p.dump(canonical_class(obj))
        state = obj.__getstate__()
        if isinstance(state, tuple) and len(state) == 1 and \
                self._inlined is not None and \
                getattr(obj, "_firstbucket", None) is not None and \
                obj._firstbucket._p_oid is None:
            # (only a leaf that has no oid *now* is the known finding; one
            # that already has a record must never be inlined at all)
            self._inlined.append((obj, obj._firstbucket))
        p.dump(state)
        return f.getvalue()

    def commit(self, crash=None):
        """Returns (tid, [oids written], [oids resolved]).  On conflict the
        transaction is aborted and ConflictError propagates."""
        st = self.storage
        txn = st.tpc_begin()
        # Registered objects are written in oid order (ZODB: registration
        # order; only the oids handed to newly reachable objects depend on
        # it).  A fixed order makes the oids assigned in one commit a
        # function of the set of changed objects, whatever order the C or
        # the Python implementation announced them in.
        work = sorted(self.registered,
                      key=lambda o: o._p_oid or b"\xff" * 8)
        seen = set()
        written = []
        self._inlined = []
        try:
            i = 0
            while i < len(work):
                obj = work[i]
                i += 1
                oid = obj._p_oid
                if oid in seen or oid is None:
                    continue
                if obj._p_jar is not self:
                    raise ValueError("foreign object registered")
                is_new = oid in self.added
                if not is_new and obj._p_changed is not True:
                    # registered, then invalidated/aborted in between
                    continue
                seen.add(oid)
                new_objs = []
                data = self.serialize(obj, new_objs)
                work.extend(new_objs)
                serial = None if is_new else _unser(obj._p_serial)
                st.store(txn, oid, serial, data, self.impl)
                written.append(obj)
            for oid, serial in sorted(self.read_current.items()):
                if oid in seen:
                    continue
                st.check_current(txn, oid, serial)
        except ConflictError:
            self.abort()
            raise
        for node, leaf in self._inlined:
            if leaf._p_oid is not None:
                self.hazards.append(("inline-duplicate", node._p_oid))
        self._inlined = None
        # tpc_vote passed
        if crash == "after_vote":
            raise CrashInCommit()
        tid = st.tpc_finish(txn)
        resolved = set(txn["resolved"])
        for obj in written:
            if obj._p_oid in resolved:
                obj._p_invalidate()
            else:
                obj._p_changed = False
                obj._p_serial = _ser(tid)
        oids = [o._p_oid for o in written]
        self.registered = []
        self.read_current = {}
        self.added = {}
        self.own_tids.add(tid)
        self.log.append(("commit", tid, tuple(oids)))
        self.begin()
        return tid, oids, sorted(resolved)

    def abort(self):
        for obj in self.registered:
            oid = obj._p_oid
            if oid is None:
                continue
            if oid in self.added:
                continue
            self._cache.invalidate(oid)
        for oid, obj in list(self.added.items()):
            try:
                del self._cache[oid]
            except KeyError:
                pass
            try:
                del obj._p_jar
                del obj._p_oid
            except Exception:
                pass
        self.registered = []
        self.read_current = {}
        self.added = {}
        self.log.append(("abort",))
        self.begin()

    # -- cache sweeps (the eviction fault)
    def nodes(self):
        """cached objects, in oid order (deterministic)."""
        return [o for _, o in sorted(self._cache.items())]

    def sweep(self, kind, arg=None):
        """returns the number of objects that actually became ghosts."""
        before = self._ghost_count()
        if kind == "minimize":
            self._cache.minimize()
        elif kind == "incrgc":
            old = self._cache.cache_size
            self._cache.cache_size = arg or 1
            self._cache.incrgc()
            self._cache.cache_size = old
        elif kind == "deactivate":
            for obj in self.nodes():
                if arg is None or obj._p_oid in arg:
                    obj._p_deactivate()
        else:
            raise ValueError(kind)
        return self._ghost_count() - before

    def _ghost_count(self):
        n = 0
        for _, o in self._cache.items():
            if o._p_state == GHOST:
                n += 1
        return n

    def sticky_nodes(self):
        return [o._p_oid for o in self.nodes() if o._p_state == STICKY]

    def close(self):
        self.closed = True
        self.registered = []
        self.read_current = {}
        self.added = {}


_Z64 = b"\0" * 8


def _ser(tid):
    return tid.to_bytes(8, "big")


def _unser(serial):
    return int.from_bytes(serial, "big")

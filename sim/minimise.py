"""Plan minimisation: ddmin over the plan's lists, then scenario-specific
simplification candidates; every candidate is re-executed from scratch and
kept only if the *same signature* persists."""
import copy
import json

from . import core


def _concrete_paths(plan, path):
    """expand '*' wildcards into concrete index paths to lists"""
    out = [[]]
    for comp in path:
        nxt = []
        for p in out:
            node = _get(plan, p)
            if comp == "*":
                if isinstance(node, list):
                    for i in range(len(node)):
                        nxt.append(p + [i])
            else:
                if isinstance(node, dict) and comp in node:
                    nxt.append(p + [comp])
                elif isinstance(node, list) and isinstance(comp, int) and \
                        comp < len(node):
                    nxt.append(p + [comp])
        out = nxt
    return [p for p in out if isinstance(_get(plan, p), list)]


def _get(plan, path):
    node = plan
    for c in path:
        node = node[c]
    return node


def _set(plan, path, value):
    node = plan
    for c in path[:-1]:
        node = node[c]
    node[path[-1]] = value


class _Budget(object):
    def __init__(self, n):
        self.left = n
        self.tried = 0


def shrink(prop, plan, sig, variant="plain", budget=400, fails=None):
    scn = core.scenario(prop)
    want = json.dumps(sig, sort_keys=True)
    b = _Budget(budget)

    def default_fails(p):
        res = core.execute(prop, p, variant)
        v = res["violation"]
        return bool(v) and json.dumps(v["sig"], sort_keys=True) == want

    check = fails or default_fails

    def test(p):
        if b.left <= 0:
            return False
        b.left -= 1
        b.tried += 1
        try:
            return check(p)
        except core.Violation:
            return False
        except Exception:
            return False

    plan = copy.deepcopy(plan)
    changed = True
    rounds = 0
    while changed and b.left > 0 and rounds < 4:
        changed = False
        rounds += 1
        for path in getattr(scn, "SHRINK", []):
            for cp in _concrete_paths(plan, path):
                lst = _get(plan, cp)
                new = _ddmin(plan, cp, lst, test)
                if len(new) < len(lst):
                    _set(plan, cp, new)
                    changed = True
        simp = getattr(scn, "simplify", None)
        if simp is not None:
            progress = True
            while progress and b.left > 0:
                progress = False
                for cand in simp(copy.deepcopy(plan)):
                    if cand == plan:
                        continue
                    if test(cand):
                        plan = cand
                        progress = True
                        changed = True
                        break
    return plan, b.tried


def _ddmin(plan, path, lst, test):
    """classic ddmin on one list inside plan; returns the reduced list"""
    cur = list(lst)
    n = 2
    while len(cur) >= 1:
        if len(cur) == 1:
            trial = copy.deepcopy(plan)
            _set(trial, path, [])
            if test(trial):
                cur = []
            break
        chunk = max(1, len(cur) // n)
        reduced = False
        # try removing each chunk
        i = 0
        while i < len(cur):
            cand = cur[:i] + cur[i + chunk:]
            trial = copy.deepcopy(plan)
            _set(trial, path, cand)
            if test(trial):
                cur = cand
                n = max(n - 1, 2)
                reduced = True
            else:
                i += chunk
        if not reduced:
            if chunk == 1:
                break
            n = min(len(cur), n * 2)
    return cur

"""Operation alphabet.

An op is a JSON list [name, arg...].  Key/value arguments are universe indices
(ints) or ["ood", name] for out-of-domain values (C09 only).  `apply(c, op,
dom, ...)` runs it on a real container and returns a normalised outcome
("ok", value) / ("exc", ExceptionClassName); `Model.apply(op)` returns the
expected outcome in real values.  Lazy results are materialised with list().
"""
import math

from .domains import is_mapping

_MISSING = object()


class _Index(object):
    def __init__(self, n):
        self.n = n

    def __index__(self):
        return self.n


class _Plain(object):
    """object with default comparison"""


OOD = {
    "str": "zz", "ustr": "é", "bytes0": b"", "bytes1": b"a",
    "bytes2": b"ab", "bytes3": b"abc", "bytes5": b"abcde", "bytes6": b"abcdef",
    "bytes7": b"abcdefg", "bytes8": b"abcdefgh",
    "float": 1.5, "float_int": 2.0, "true": True, "false": False,
    "none": None, "tuple": (1, 2), "big": 2 ** 70, "negbig": -2 ** 70,
    "m1": -1, "i32hi": 2 ** 31, "i32lo": -2 ** 31 - 1, "u32hi": 2 ** 32,
    "i64hi": 2 ** 63, "i64lo": -2 ** 63 - 1, "u64hi": 2 ** 64,
    "inf": float("inf"), "ninf": float("-inf"), "nan": float("nan"),
    "f32big": 1e39, "f32tiny": 1e-50, "zero": 0, "one": 1, "list": [1],
    "f01": 0.1,
}


_PLAIN = _Plain()
_INDEX = _Index(3)


def ood_value(name):
    # singletons: both replicas of a twin run must be handed the same object
    if name == "obj":
        return _PLAIN
    if name == "index":
        return _INDEX
    return OOD[name]


import ctypes as _ctypes
# a PyDLL call re-raises whatever exception is pending when it returns
_FLUSH = _ctypes.pythonapi.Py_IsInitialized


def pending_exception():
    """name of an exception a C function left set although it returned
    normally (it surfaces at one of the next C calls), else None"""
    try:
        int("1")
        len(())
        getattr(pending_exception, "__name__")
        return None
    except BaseException as e:
        return type(e).__name__


def K(dom, spec):
    if isinstance(spec, int):
        return dom.key(spec)
    return ood_value(spec[1])


def V(dom, spec):
    if isinstance(spec, int):
        return dom.val(spec)
    return ood_value(spec[1])


def norm_exc(e):
    return ("exc", type(e).__name__)


# When a scenario sets KEEP to a list, every operand that is one of the
# package's containers is remembered there as (operand, is_mapping, listing
# at construction): the scenario can then check that operands stay what they
# were -- an operand is never modified, and what is done to the target later
# must not show in it (no shared nodes).
KEEP = None


def _keep(obj, form):
    if KEEP is not None and form in ("Set", "TreeSet", "Bucket", "BTree"):
        m = form in ("Bucket", "BTree")
        KEEP.append((obj, m, listing(obj, m), form))
    return obj


def _operand(dom, form, keyspecs, impl, valspecs=None):
    """build the right-hand operand of update / in-place operators (with the
    comparison hook of sim/keys.py switched off: faults belong to the
    operation under test, not to the construction of its argument)"""
    from .keys import HOOK
    saved = HOOK.enabled
    HOOK.enabled = False
    try:
        return _keep(_operand_(dom, form, keyspecs, impl, valspecs), form)
    finally:
        HOOK.enabled = saved


class _IterRaises(object):
    def __iter__(self):
        raise ValueError("this iterable cannot be iterated")


class OperandFailed(Exception):
    """raised by an operand iterator (a class of its own: the pure-Python
    mapping update() translates ValueError on purpose)"""


def _gen_raises(items):
    """an iterator that delivers the items and then fails"""
    for x in items:
        yield x
    raise OperandFailed("the iterator failed after %d items" % len(items))


def _operand_(dom, form, keyspecs, impl, valspecs=None):
    # operands that are no iterables at all (or refuse to be iterated)
    if form == "noniter-int":
        return 5
    if form == "noniter-none":
        return None
    if form == "iter-raises":
        return _IterRaises()
    ks = [K(dom, k) for k in keyspecs]
    if form == "list":
        return list(ks)
    if form == "tuple":
        return tuple(ks)
    if form == "gen":
        return iter(list(ks))
    if form == "gen-raises":
        return _gen_raises(list(ks))
    if form == "pyset":
        # the iteration order of a set of ints does not depend on
        # PYTHONHASHSEED; for other keys it would, so they come as a dict
        # key view (another non-list, duplicate-free iterable)
        if all(type(k) is int for k in ks):
            return set(ks)
        return dict.fromkeys(ks).keys()
    if form == "sorted":
        return sorted(ks, key=dom.sortkey)
    if form in ("Set", "TreeSet"):
        return dom.cls(form, impl)(sorted(ks, key=dom.sortkey))
    if form in ("Bucket", "BTree"):
        vs = valspecs or [0] * len(ks)
        return dom.cls(form, impl)([(k, V(dom, v)) for k, v in zip(ks, vs)])
    raise ValueError(form)


def _pairs(dom, form, pairs, impl):
    from .keys import HOOK
    saved = HOOK.enabled
    HOOK.enabled = False
    try:
        return _keep(_pairs_(dom, form, pairs, impl), form)
    finally:
        HOOK.enabled = saved


def _pairs_(dom, form, pairs, impl):
    ps = [(K(dom, k), V(dom, v)) for k, v in pairs]
    if form == "list":
        return ps
    if form == "dict":
        d = {}
        for k, v in ps:
            d[k] = v
        return d
    if form == "gen":
        return iter(ps)
    if form == "gen-raises":
        return _gen_raises(ps)
    if form in ("Bucket", "BTree"):
        return dom.cls(form, impl)(ps)
    raise ValueError(form)


def listing(c, mapping):
    if mapping:
        return list(c.items())
    return list(c.keys())


PRECALL = None      # optional callable run right before the container call
POSTCALL = None     # (after operands were built) / right after it ended
_OPERAND_OPS = frozenset(["update", "supdate", "ior", "iand", "isub", "ixor",
                          "isdisjoint", "ctor"])


def _pre():
    if PRECALL is not None:
        PRECALL()


def apply(c, op, dom, impl, kind):
    """run op on container c; normalised outcome"""
    try:
        try:
            r = _apply(c, op, dom, impl, kind)
        finally:
            if POSTCALL is not None:
                POSTCALL()
        # a C function that returns normally but leaves an exception set
        # makes it surface at one of the next C calls: flush it here, inside
        # the try, so that it is attributed to this operation
        try:
            _FLUSH()
        except BaseException:
            # "returned a result with an exception set": whether CPython
            # itself notices depends on how the call site was specialised
            # (the generic call path checks and raises SystemError, the
            # specialised CALL instructions do not), i.e. on how often this
            # line ran before -- always report what the checked path reports
            return ("exc", "SystemError")
    except Exception as e:
        return norm_exc(e)
    return ("ok", r)


def _apply(c, op, dom, impl, kind):
    name = op[0]
    if PRECALL is not None and name not in _OPERAND_OPS:
        PRECALL()
    if name == "set":
        c[K(dom, op[1])] = V(dom, op[2])
        return None
    if name == "del":
        del c[K(dom, op[1])]
        return None
    if name == "insert":
        return c.insert(K(dom, op[1]), V(dom, op[2]))
    if name == "setdefault":
        return c.setdefault(K(dom, op[1]), V(dom, op[2]))
    if name == "pop":
        return c.pop(K(dom, op[1]))
    if name == "popd":
        return c.pop(K(dom, op[1]), V(dom, op[2]))
    if name == "popitem":
        return c.popitem()
    if name == "update":
        arg = _pairs(dom, op[2], op[1], impl)
        _pre()
        c.update(arg)
        return None
    if name == "clear":
        c.clear()
        return None
    if name == "get":
        return c.get(K(dom, op[1]))
    if name == "getd":
        return c.get(K(dom, op[1]), V(dom, op[2]))
    if name == "getitem":
        return c[K(dom, op[1])]
    if name == "in":
        return K(dom, op[1]) in c
    if name == "has_key":
        return bool(c.has_key(K(dom, op[1])))
    if name == "len":
        return len(c)
    if name == "bool":
        return bool(c)
    if name == "iter":
        return list(iter(c))
    if name == "keys":
        return list(c.keys())
    if name == "values":
        return list(c.values())
    if name == "items":
        return list(c.items())
    # sets
    if name == "add":
        return c.add(K(dom, op[1]))
    if name == "sinsert":
        return c.insert(K(dom, op[1]))
    if name == "remove":
        c.remove(K(dom, op[1]))
        return None
    if name == "discard":
        c.discard(K(dom, op[1]))
        return None
    if name == "spop":
        return c.pop()
    if name == "supdate":
        arg = _operand(dom, op[2], op[1], impl)
        _pre()
        c.update(arg)
        return None
    if name in ("ior", "iand", "isub", "ixor"):
        if op[2] == "self":
            other = c
        else:
            other = _operand(dom, op[2], op[1], impl)
        before = c
        _pre()
        if name == "ior":
            c |= other
        elif name == "iand":
            c &= other
        elif name == "isub":
            c -= other
        else:
            c ^= other
        if c is not before:
            raise AssertionError("in-place operator rebound its target")
        return None
    if name == "sgetitem":
        return c[op[1]]
    if name == "isdisjoint":
        arg = c if op[2] == "self" else _operand(dom, op[2], op[1], impl)
        _pre()
        return bool(c.isdisjoint(arg))
    if name == "ctor":
        # a new container of the same class built from an iterable; the
        # result is its listing
        mapping = is_mapping(kind)
        if mapping:
            arg = _pairs(dom, op[2], op[1], impl)
        else:
            arg = _operand(dom, op[2], op[1], impl)
        _pre()
        new = type(c)(arg)
        return listing(new, mapping)
    if name == "seqidx":
        # index (or slice) a lazy sequence made for the purpose
        seq = getattr(c, op[1])()
        if isinstance(op[2], list):
            return list(seq[op[2][0]:op[2][1]])
        return seq[op[2]]
    if name == "fsrt":
        # fs family, Bucket: toBytes() of the container loaded into a NEW
        # bucket with fromBytes(), which then takes more entries; the result
        # is the new bucket's listing (the container itself is only read)
        data = c.toBytes()
        new = type(c)()
        r = new.fromBytes(data)
        if r is not new:
            raise AssertionError("fromBytes() did not return its bucket")
        for k, v in op[1]:
            new[K(dom, k)] = V(dom, v)
        return list(new.items())
    if name == "fsload":
        # ... and fromBytes() on the container itself: its contents are
        # replaced by the given (sorted) entries
        pairs = sorted((K(dom, k), V(dom, v)) for k, v in op[1])
        c.fromBytes(b"".join(k for k, _ in pairs) +
                    b"".join(v for _, v in pairs))
        return None
    if name == "byValue":
        # (mappings only; the reference model has no opinion on byValue --
        # the replicas of a scenario are compared with each other)
        return [tuple(x) for x in c.byValue(V(dom, op[1]))]
    if name == "minKey":
        return c.minKey() if len(op) == 1 else c.minKey(K(dom, op[1]))
    if name == "maxKey":
        return c.maxKey() if len(op) == 1 else c.maxKey(K(dom, op[1]))
    if name == "range":
        # ["range", meth, min, max, exmin, exmax, form]
        return list(call_range(c, op, dom))
    raise ValueError("unknown op %r" % (name,))


def range_args(op, dom):
    """(args, kwargs) for a range call; op = [.., meth, min, max, exmin,
    exmax, form]; min/max: "omit", "none", or key spec"""
    _, meth, mn, mx, exmin, exmax, form = op[:7]

    def conv(b):
        if b == "none":
            return None
        return K(dom, b)
    args = []
    kw = {}
    if form == "pos":
        # positional: omitted bounds before a given argument become None
        vals = [None if x == "omit" else conv(x) for x in (mn, mx)]
        if exmin or exmax:
            args = vals + [bool(exmin), bool(exmax)]
        elif mx != "omit":
            args = vals
        elif mn != "omit":
            args = vals[:1]
        else:
            args = []
    else:
        if mn != "omit":
            kw["min"] = conv(mn)
        if mx != "omit":
            kw["max"] = conv(mx)
        if exmin:
            kw["excludemin"] = True
        if exmax:
            kw["excludemax"] = True
    return args, kw


def call_range(c, op, dom):
    args, kw = range_args(op, dom)
    return getattr(c, op[1])(*args, **kw)


# ---------------------------------------------------------------------------

class Model(object):
    """reference sorted map / set over universe indices"""

    def __init__(self, dom, kind):
        self.dom = dom
        self.kind = kind
        self.mapping = is_mapping(kind)
        self.d = {}

    def copy(self):
        m = Model(self.dom, self.kind)
        m.d = dict(self.d)
        return m

    # listing in real values
    def skeys(self):
        return sorted(self.d)

    def listing(self):
        dom = self.dom
        if self.mapping:
            return [(dom.key(k), dom.val(self.d[k])) for k in sorted(self.d)]
        return [dom.key(k) for k in sorted(self.d)]

    def keys_real(self):
        return [self.dom.key(k) for k in sorted(self.d)]

    def apply(self, op):
        try:
            return ("ok", self._apply(op))
        except _ModelExc as e:
            return ("exc", e.args[0])

    def _apply(self, op):
        d = self.d
        dom = self.dom
        name = op[0]
        if name in _WRITES_WITH_ARGS and _has_ood(op):
            # a write with an unusable key or value: TypeError, no change
            raise _ModelExc("TypeError")
        if name == "set":
            d[op[1]] = op[2]
            return None
        if name == "del":
            if op[1] not in d:
                raise _ModelExc("KeyError")
            del d[op[1]]
            return None
        if name == "insert":
            if op[1] in d:
                return 0
            d[op[1]] = op[2]
            return 1
        if name == "setdefault":
            if op[1] not in d:
                d[op[1]] = op[2]
            return dom.val(d[op[1]])
        if name == "pop":
            if op[1] not in d:
                raise _ModelExc("KeyError")
            return dom.val(d.pop(op[1]))
        if name == "popd":
            if op[1] not in d:
                return dom.val(op[2])
            return dom.val(d.pop(op[1]))
        if name == "popitem":
            if not d:
                raise _ModelExc("KeyError")
            k = min(d)
            return (dom.key(k), dom.val(d.pop(k)))
        if name == "update":
            for k, v in op[1]:
                d[k] = v
            return None
        if name == "clear":
            d.clear()
            return None
        if name == "get":
            return dom.val(d[op[1]]) if op[1] in d else None
        if name == "getd":
            return dom.val(d[op[1]]) if op[1] in d else dom.val(op[2])
        if name == "getitem":
            if op[1] not in d:
                raise _ModelExc("KeyError")
            return dom.val(d[op[1]])
        if name in ("in", "has_key"):
            return op[1] in d
        if name == "len":
            return len(d)
        if name == "bool":
            return bool(d)
        if name in ("iter", "keys"):
            return [dom.key(k) for k in sorted(d)]
        if name == "values":
            return [dom.val(d[k]) for k in sorted(d)]
        if name == "items":
            return [(dom.key(k), dom.val(d[k])) for k in sorted(d)]
        if name in ("add", "sinsert"):
            if op[1] in d:
                return 0
            d[op[1]] = True
            return 1
        if name == "remove":
            if op[1] not in d:
                raise _ModelExc("KeyError")
            del d[op[1]]
            return None
        if name == "discard":
            d.pop(op[1], None)
            return None
        if name == "spop":
            if not d:
                raise _ModelExc("KeyError")
            k = min(d)
            del d[k]
            return dom.key(k)
        if name == "supdate":
            for k in op[1]:
                d[k] = True
            return None
        if name in ("ior", "iand", "isub", "ixor"):
            other = set(d) if op[2] == "self" else set(op[1])
            cur = set(d)
            if name == "ior":
                new = cur | other
            elif name == "iand":
                new = cur & other
            elif name == "isub":
                new = cur - other
            else:
                new = cur ^ other
            self.d = {k: True for k in new}
            return None
        if name == "sgetitem":
            ks = sorted(d)
            i = op[1]
            if -len(ks) <= i < len(ks):
                return dom.key(ks[i])
            raise _ModelExc("IndexError")
        if name == "isdisjoint":
            if op[2] == "self":
                return not d
            return not (set(d) & set(op[1]))
        if name == "ctor":
            if self.mapping:
                dd = {}
                for k, v in op[1]:
                    dd[k] = v
                return [(dom.key(k), dom.val(dd[k])) for k in sorted(dd)]
            return [dom.key(k) for k in sorted(set(op[1]))]
        if name == "seqidx":
            lst = self.listing()
            if self.mapping and op[1] == "keys":
                lst = [k for k, _ in lst]
            elif self.mapping and op[1] == "values":
                lst = [v for _, v in lst]
            if isinstance(op[2], list):
                return lst[op[2][0]:op[2][1]]
            if not -len(lst) <= op[2] < len(lst):
                raise _ModelExc("IndexError")
            return lst[op[2]]
        if name == "fsrt":
            dd = dict(d)
            for k, v in op[1]:
                dd[k] = v
            return [(dom.key(k), dom.val(dd[k])) for k in sorted(dd)]
        if name == "fsload":
            d.clear()
            for k, v in op[1]:
                d[k] = v
            return None
        if name == "byValue":
            # no opinion on the answer (nor on whether the minimum can be
            # compared with every value); the contents stay what they are
            return ANY
        if name == "minKey":
            return self._minmax(op, True)
        if name == "maxKey":
            return self._minmax(op, False)
        if name == "range":
            return self.range(op)
        raise ValueError("unknown model op %r" % (name,))

    def _minmax(self, op, low):
        d = self.d
        dom = self.dom
        if not d:
            raise _ModelExc("ValueError")
        if len(op) == 1 or op[1] == "none":
            return dom.key(min(d) if low else max(d))
        b = op[1]
        if low:
            c = [k for k in d if k >= b]
            if not c:
                raise _ModelExc("ValueError")
            return dom.key(min(c))
        c = [k for k in d if k <= b]
        if not c:
            raise _ModelExc("ValueError")
        return dom.key(max(c))

    def range_indices(self, mn, mx, exmin, exmax):
        ks = sorted(self.d)
        if mn in ("omit", "none"):
            if exmin and ks:
                ks = ks[1:]
        else:
            ks = [k for k in ks if (k > mn if exmin else k >= mn)]
        if mx in ("omit", "none"):
            if exmax and ks:
                # drops only the overall largest key
                allk = sorted(self.d)
                if ks and ks[-1] == allk[-1]:
                    ks = ks[:-1]
        else:
            ks = [k for k in ks if (k < mx if exmax else k <= mx)]
        return ks

    def range(self, op):
        _, meth, mn, mx, exmin, exmax = op[:6]
        dom = self.dom
        ks = self.range_indices(mn, mx, exmin, exmax)
        if meth in ("keys", "iterkeys"):
            return [dom.key(k) for k in ks]
        if meth in ("values", "itervalues"):
            return [dom.val(self.d[k]) for k in ks]
        return [(dom.key(k), dom.val(self.d[k])) for k in ks]


class _ModelExc(Exception):
    pass


_WRITES_WITH_ARGS = ("set", "setdefault", "insert", "update", "add",
                     "sinsert", "supdate")


def _is_ood(x):
    return isinstance(x, list) and len(x) == 2 and x[0] == "ood"


def _has_ood(op):
    name = op[0]
    if name in ("set", "setdefault", "insert"):
        return _is_ood(op[1]) or _is_ood(op[2])
    if name in ("add", "sinsert"):
        return _is_ood(op[1])
    if name == "update":
        return any(_is_ood(k) or _is_ood(v) for k, v in op[1])
    if name == "supdate":
        return any(_is_ood(k) for k in op[1])
    return False


def bad_key_spec(fam):
    """an argument no container of the family accepts as a key (TypeError
    from every writing entry point of both implementations)"""
    if fam[0] in "IULQ":
        return ["ood", "str"]
    if fam[0] == "f":
        return ["ood", "bytes3"]
    return ["ood", "obj"]


def bad_value_spec(fam):
    if fam[1] == "O":
        return None
    if fam[1] == "s":
        return ["ood", "bytes3"]
    return ["ood", "str"]


def same_value(a, b):
    """== that treats NaN as equal to itself and is strict about bool/int
    only where it matters (it does not: 1 == True is accepted)."""
    if a is b:
        return True
    try:
        if a == b:
            return True
    except Exception:
        return False
    if isinstance(a, float) and isinstance(b, float):
        return math.isnan(a) and math.isnan(b)
    if isinstance(a, (list, tuple)) and isinstance(b, (list, tuple)) and \
            type(a) is type(b) and len(a) == len(b):
        return all(same_value(x, y) for x, y in zip(a, b))
    return False


class _Any(object):
    def __repr__(self):
        return "<any outcome>"


ANY = _Any()


def same_outcome(a, b):
    if b[0] == "ok" and b[1] is ANY:
        return True
    if a[0] != b[0]:
        return False
    if a[0] == "exc":
        return a[1] == b[1]
    return same_value(a[1], b[1])

"""In-process driver for development:  python -m sim.debug C03 [n] [tier] [start]
Runs n plans, prints the first few violations with their plans."""
import json
import os
import sys
import time
import traceback

if os.environ.get("PYTHONHASHSEED") != "0":
    os.environ["PYTHONHASHSEED"] = "0"
    os.execv(sys.executable, [sys.executable, "-m", "sim.debug"] + sys.argv[1:])

from . import core  # noqa: E402


def main():
    prop = sys.argv[1]
    n = int(sys.argv[2]) if len(sys.argv) > 2 else 200
    tier = sys.argv[3] if len(sys.argv) > 3 else "quick"
    start = int(sys.argv[4]) if len(sys.argv) > 4 else 0
    variant = os.environ.get("VERIF_VARIANT", "plain")
    t0 = time.time()
    sigs = {}
    faults = {}
    probes = {}
    nontriv = set()
    pre = 0
    steps = 0
    for i in range(start, start + n):
        plan = core.make_plan(prop, int(os.environ.get("VERIF_SEED", "0")),
                              i, tier)
        try:
            res = core.execute(prop, plan, variant)
        except Exception:
            print("HARNESS exception in run", i)
            traceback.print_exc()
            print(json.dumps(plan)[:3000])
            return 2
        steps += res["steps"]
        ctx = res["ctx"]
        for k, v in ctx.faults.items():
            faults[k] = faults.get(k, 0) + v
        for k, v in ctx.probes.items():
            probes[k] = probes.get(k, 0) + v
        nontriv |= ctx.nontrivial
        if res["precondition"]:
            pre += 1
        if res["violation"]:
            key = json.dumps(res["violation"]["sig"], sort_keys=True)
            if key not in sigs:
                sigs[key] = [0, i, res["violation"]["detail"], plan]
            sigs[key][0] += 1
    dt = time.time() - t0
    print("%s: %d runs %.1fs (%.1f ms/run) steps=%d pre=%d nontriv=%d" % (
        prop, n, dt, dt / n * 1000, steps, pre, len(nontriv)))
    print("faults:", json.dumps(faults, sort_keys=True))
    print("probes:", json.dumps(probes, sort_keys=True))
    for key, (cnt, i, detail, plan) in sorted(sigs.items(),
                                              key=lambda kv: -kv[1][0]):
        print("\n%5d x %s  (first run %d)\n   %s" % (cnt, key, i,
                                                   detail[:600]))
        if os.environ.get("VERIF_SHOWPLAN"):
            print("   plan:", json.dumps(plan)[:2500])
    return 1 if sigs else 0


if __name__ == "__main__":
    sys.exit(main())

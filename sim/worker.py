"""Worker process: executes a job described by a JSON file (argv[1]) and
writes the result JSON to job["out"].  Run as  python -m sim.worker job.json
with PYTHONHASHSEED set by the parent (and LD_PRELOAD for the asan variant).

job kinds:
  batch     run plans for seeds [start, start+count) of a property
  replay    execute one plan, report signature + digest
  minimise  shrink a plan while the signature stays the same (in-process)
"""
import faulthandler
import gc
import json
import os
import sys
import time


def _jsonable_sig(sig):
    return json.loads(json.dumps(sig, sort_keys=True))


def run_batch(job):
    from . import core
    prop = job["prop"]
    variant = job["variant"]
    tier = job["tier"]
    root = job["root_seed"]
    start, count = job["start"], job["count"]
    keep_digests = job.get("keep_digests", 0)
    deadline = job.get("deadline")
    curfd = os.open(job["out"] + ".cur", os.O_WRONLY | os.O_CREAT, 0o644)
    out = {"runs": 0, "steps": 0, "violations": [], "preconditions": 0,
           "faults": {}, "probes": {}, "shapes": [], "inter": [],
           "nontrivial": [], "digests": {}, "samples": [], "stopped": None}
    shapes, inter, nontriv = set(), set(), set()
    gc.disable()
    for i in range(start, start + count):
        if deadline and time.time() > deadline:
            out["stopped"] = i
            break
        os.pwrite(curfd, b"%-20d" % i, 0)
        plan = core.make_plan(prop, root, i, tier)
        res = core.execute(prop, plan, variant)
        ctx = res["ctx"]
        out["runs"] += 1
        out["steps"] += res["steps"]
        if res["precondition"]:
            out["preconditions"] += 1
        for k, v in ctx.faults.items():
            out["faults"][k] = out["faults"].get(k, 0) + v
        for k, v in ctx.probes.items():
            out["probes"][k] = out["probes"].get(k, 0) + v
        shapes |= ctx.shapes
        inter |= ctx.inter
        nontriv |= ctx.nontrivial
        if i - job.get("batch_start", start) < keep_digests or \
                i < job.get("digest_upto", 0):
            out["digests"][str(i)] = res["digest"]
        if len(out["samples"]) < job.get("nsamples", 0):
            out["samples"].append(plan)
        if res["violation"]:
            v = res["violation"]
            sig = _jsonable_sig(v["sig"])
            ki = None
            for idx, ks in enumerate(job.get("known", [])):
                if all(sig.get(a) == b for a, b in ks.items()):
                    ki = idx
                    break
            if ki is not None:
                kc = out.setdefault("known_counts", {})
                kc[str(ki)] = kc.get(str(ki), 0) + 1
            else:
                out["violations"].append({"i": i, "sig": sig,
                                          "detail": v["detail"][:2000],
                                          "plan": plan,
                                          "digest": res["digest"]})
                if len(out["violations"]) >= job.get("max_violations", 3):
                    out["stopped"] = i + 1
                    break
        if (i & 63) == 0:
            gc.collect()
    out["shapes"] = sorted(shapes)
    out["inter"] = sorted(inter)
    out["nontrivial"] = sorted(nontriv)
    os.close(curfd)
    return out


def run_replay(job):
    from . import core
    res = core.execute(job["prop"], job["plan"], job["variant"],
                       trace=job.get("trace", False))
    out = {"digest": res["digest"], "steps": res["steps"],
           "precondition": res["precondition"], "violation": None}
    if res["violation"]:
        out["violation"] = {"sig": _jsonable_sig(res["violation"]["sig"]),
                            "detail": res["violation"]["detail"][:4000]}
    if job.get("trace"):
        out["trace"] = res["ctx"].trace[-400:]
    return out


def run_minimise(job):
    from . import core, minimise
    plan, n = minimise.shrink(job["prop"], job["plan"], job["sig"],
                              job["variant"], budget=job.get("budget", 400))
    res = core.execute(job["prop"], plan, job["variant"])
    return {"plan": plan, "tried": n,
            "sig": _jsonable_sig(res["violation"]["sig"])
            if res["violation"] else None,
            "detail": res["violation"]["detail"][:4000]
            if res["violation"] else "",
            "digest": res["digest"]}


def main():
    with open(sys.argv[1]) as f:
        job = json.load(f)
    faulthandler.enable()
    if job.get("hang_s"):
        faulthandler.dump_traceback_later(job["hang_s"], exit=True)
    kind = job["kind"]
    try:
        if kind == "batch":
            out = run_batch(job)
        elif kind == "replay":
            out = run_replay(job)
        elif kind == "minimise":
            out = run_minimise(job)
        else:
            raise ValueError(kind)
    except Exception:
        import traceback
        out = {"harness_error": traceback.format_exc()}
    tmp = job["out"] + ".tmp"
    with open(tmp, "w") as f:
        json.dump(out, f)
    os.rename(tmp, job["out"])


if __name__ == "__main__":
    main()

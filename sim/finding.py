"""Maintenance helper (never used by checks at run time):
  python -m sim.finding add <replay.json> <short-name> [fixed|known]
copies a replay file into findings/<prop>-<short-name>.json (regression seed).
"""
import json
import os
import sys

VERIF = os.path.dirname(os.path.dirname(os.path.abspath(__file__)))


def main():
    if sys.argv[1] != "add":
        print(__doc__)
        return 2
    with open(sys.argv[2]) as f:
        rep = json.load(f)
    status = sys.argv[4] if len(sys.argv) > 4 else "fixed"
    out = {"property": rep["property"], "variant": rep.get("variant", "plain"),
           "status": status, "signature": rep["signature"],
           "detail": (rep.get("detail") or "")[:400], "plan": rep["plan"]}
    p = os.path.join(VERIF, "findings", "%s-%s.json" % (rep["property"],
                                                        sys.argv[3]))
    with open(p, "w") as f:
        json.dump(out, f, sort_keys=True)
        f.write("\n")
    print(p)


if __name__ == "__main__":
    sys.exit(main())

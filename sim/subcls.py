"""Trivial user subclasses of the package's classes (`class Folder(OOBTree):
pass` is what applications store), importable by name -- records and pickles
name a class by module and name.  `Sub_OOBTree`, `Sub_OOBTreePy`, ... are made
on demand (PEP 562 module __getattr__)."""
import importlib
import sys

_made = {}


def get(fam, kind, impl):
    return __getattr__("Sub_%s%s%s" % (fam, kind,
                                       "Py" if impl == "py" else ""))


def get_custom(fam, kind, impl):
    """a tree subclass that names a leaf class of its own (`_bucket_type`,
    the extension point tests/test_btreesubclass.py uses): `CL_OOBTree` with
    leaves of class `CLeaf_OOBucket`"""
    return __getattr__("CL_%s%s%s" % (fam, kind,
                                      "Py" if impl == "py" else ""))


def _base(base_name):
    modname = "BTrees.%sBTree" % base_name[:2]
    mod = sys.modules.get(modname) or importlib.import_module(modname)
    return getattr(mod, base_name)


def __getattr__(name):
    if not name.startswith(("Sub_", "CL_", "CLeaf_")):
        raise AttributeError(name)
    cls = _made.get(name)
    if cls is None:
        if name.startswith("CL_"):
            base_name = name[3:]
            py = "Py" if base_name.endswith("Py") else ""
            stem = base_name[:-2] if py else base_name
            leaf = stem[:2] + ("Bucket" if stem[2:] == "BTree" else "Set")
            cls = type(name, (_base(base_name),), {
                "__module__": __name__,
                "_bucket_type": __getattr__("CLeaf_" + leaf + py)})
        else:
            base_name = name.split("_", 1)[1]
            cls = type(name, (_base(base_name),), {"__module__": __name__})
        _made[name] = cls
    return cls


def is_sub(obj):
    return type(obj).__module__ == __name__


def _labelled_length():
    from BTrees.Length import Length

    class LabelledLength(Length):
        """a Length subclass whose constructor does not take the value as
        its first positional argument (what applications do to counters)"""

        def __init__(self, label="", v=0):
            Length.__init__(self, v)
            self.label = label
    LabelledLength.__module__ = __name__
    LabelledLength.__qualname__ = "LabelledLength"
    return LabelledLength


_orig_getattr = __getattr__


def __getattr__(name):      # noqa: F811
    if name == "LabelledLength":
        cls = _made.get(name)
        if cls is None:
            cls = _made[name] = _labelled_length()
        return cls
    return _orig_getattr(name)

"""Parent-side orchestration of a check: build, regression replays, seeded
batch over worker subprocesses, crash handling, known-finding matching,
minimisation, replay verification, evidence, exit status.

exit 0: property held on everything explored (known findings printed)
exit 1: at least one unlisted violation (VIOLATION line printed)
exit 2: harness error (never a verdict)
"""
import json
import os
import re
import shutil
import subprocess
import sys
import time

from . import build, core, env

VERIF = os.path.dirname(os.path.dirname(os.path.abspath(__file__)))
NPROC = int(os.environ.get("VERIF_NPROC", "16"))
PY = sys.executable
ASAN_OFFSET = 10 ** 9

COMPONENTS = {
    "real": [
        "BTrees C extension (all 22 families) compiled from /repo working "
        "tree with -DBTREES_VERIF=1",
        "BTrees pure-Python implementation copied from /repo working tree",
        "persistent 6.8 cPersistence + cPickleCache (installed wheel)",
        "pickle / copy / copyreg (stdlib)",
    ],
    "stub": [
        "ZODB Connection / MVCC storage / two-phase commit / "
        "tryToResolveConflict / PersistentReference (sim/world.py)",
        "clients and application code (seeded plan interpreter)",
    ],
    "not_simulated": ["threads, clocks, sockets, files: BTrees has none; "
                      "simulated time is the scheduler step count"],
}


class HarnessError(Exception):
    pass


def load_known(prop):
    p = os.path.join(VERIF, "known_findings.json")
    if not os.path.exists(p):
        return []
    with open(p) as f:
        data = json.load(f)
    return [k for k in data.get("known", []) if k["property"] == prop]


def sig_matches(entry_sig, sig):
    return all(sig.get(k) == v for k, v in entry_sig.items())


def match_known(known, sig):
    for k in known:
        if sig_matches(k["signature"], sig):
            return k
    return None


class Pool(object):
    def __init__(self, workdir):
        self.workdir = workdir
        self.n = 0

    def spawn(self, job, variant, hashseed="0"):
        self.n += 1
        base = os.path.join(self.workdir, "job%06d" % self.n)
        job = dict(job)
        job["out"] = base + ".out"
        job["variant"] = variant
        with open(base + ".json", "w") as f:
            json.dump(job, f)
        e = env.child_env(variant)
        e["PYTHONHASHSEED"] = hashseed
        e["PYTHONPATH"] = VERIF
        errf = open(base + ".err", "w")
        p = subprocess.Popen([PY, "-m", "sim.worker", base + ".json"],
                             cwd=VERIF, env=e, stdout=errf, stderr=errf)
        errf.close()
        return {"p": p, "job": job, "base": base, "t0": time.time()}

    def result(self, h):
        """-> ("ok", out) | ("crash", info) | ("harness", text)"""
        base = h["base"]
        rc = h["p"].returncode
        if os.path.exists(base + ".out"):
            with open(base + ".out") as f:
                out = json.load(f)
            if "harness_error" in out:
                return "harness", out["harness_error"]
            return "ok", out
        with open(base + ".err", errors="replace") as f:
            err = f.read()
        if rc == 3 or "Traceback (most recent call last)" in err and \
                "AddressSanitizer" not in err and "Fatal Python error" \
                not in err and "runtime error:" not in err:
            return "harness", err[-6000:]
        cur = None
        try:
            with open(base + ".out.cur") as f:
                cur = int(f.read().strip() or -1)
        except Exception:
            pass
        return "crash", {"rc": rc, "err": err, "cur": cur}

    def run_one(self, job, variant, timeout=600, hashseed="0"):
        h = self.spawn(job, variant, hashseed)
        try:
            h["p"].wait(timeout=timeout)
        except subprocess.TimeoutExpired:
            h["p"].kill()
            h["p"].wait()
            return "crash", {"rc": "timeout", "err": "timeout", "cur": None}
        return self.result(h)


def crash_signature(info):
    err = info["err"]
    sig = {"oracle": "crash"}
    m = re.search(r"ERROR: AddressSanitizer: ([a-zA-Z-]+)", err)
    if m:
        sig["oracle"] = "sanitizer"
        sig["kind"] = m.group(1)
        # first frame inside the extension's sources
        fm = re.search(r"#\d+ 0x[0-9a-f]+ in (\w+) [^\n]*src/BTrees/(\w+\.[ch])",
                       err)
        if fm:
            sig["func"] = fm.group(1)
    elif "runtime error:" in err:
        sig["oracle"] = "sanitizer"
        m = re.search(r"src/BTrees/(\w+\.[ch]):\d+:\d+: runtime error: "
                      r"([a-z -]+)", err)
        sig["kind"] = "ubsan"
        if m:
            sig["what"] = m.group(2).strip()[:40]
            sig["file"] = m.group(1)
    elif "Assertion" in err and "failed" in err:
        m = re.search(r"(\w+\.[ch]):\d+: (\w+): Assertion", err)
        sig["oracle"] = "assert"
        if m:
            sig["func"] = m.group(2)
    else:
        rc = info["rc"]
        sig["rc"] = rc if isinstance(rc, str) else int(rc)
        m = re.search(r"Fatal Python error: (\w+)", err)
        if m:
            sig["fatal"] = m.group(1)
    return sig


def _write_replay(prop, variant, plan, sig, digest, detail, root_seed):
    d = os.path.join(VERIF, "replays")
    os.makedirs(d, exist_ok=True)
    name = "%s-%s-%s.json" % (prop, variant,
                              core._h(json.dumps(sig, sort_keys=True)) % 10**8)
    path = os.path.join(d, name)
    with open(path, "w") as f:
        json.dump({"property": prop, "variant": variant, "plan": plan,
                   "signature": sig, "digest": digest, "detail": detail,
                   "root_seed": root_seed}, f, indent=1, sort_keys=True)
    return path


def minimise_violation(pool, prop, variant, plan, sig, is_crash):
    """-> (plan, digest, detail, tried)"""
    if not is_crash:
        kind, out = pool.run_one({"kind": "minimise", "prop": prop,
                                  "plan": plan, "sig": sig, "budget": 400,
                                  "hang_s": 500}, variant, timeout=600)
        if kind == "ok" and out["sig"] == sig:
            return out["plan"], out["digest"], out["detail"], out["tried"]
        return plan, None, "", 0
    # crashes: every candidate runs in its own process
    from . import minimise

    def fails(p):
        k, o = pool.run_one({"kind": "replay", "prop": prop, "plan": p,
                             "hang_s": 100}, variant, timeout=120)
        return k == "crash" and crash_signature(o) == sig
    newplan, tried = minimise.shrink(prop, plan, sig, variant, budget=120,
                                     fails=fails)
    return newplan, None, "", tried


def replay_file(path):
    with open(path) as f:
        rep = json.load(f)
    prop, variant = rep["property"], rep.get("variant", "plain")
    build.ensure(variant)
    workdir = os.path.join(build.BUILD_ROOT, "run-%d" % os.getpid())
    os.makedirs(workdir, exist_ok=True)
    try:
        pool = Pool(workdir)
        kind, out = pool.run_one({"kind": "replay", "prop": prop,
                                  "plan": rep["plan"], "hang_s": 300,
                                  "trace": bool(os.environ.get("VERIF_TRACE"))},
                                 variant, timeout=330)
        if kind == "harness":
            print("HARNESS-ERROR\n" + out)
            return 2
        if kind == "crash":
            sig = crash_signature(out)
            print(out["err"][-(60000 if os.environ.get("VERIF_TRACE") else 3000):])
        else:
            if os.environ.get("VERIF_TRACE") and out.get("trace"):
                print("\n".join(out["trace"]))
            if not out["violation"]:
                print("replay: no violation (digest %s)" % out["digest"])
                return 0
            sig = out["violation"]["sig"]
            print("detail:", out["violation"]["detail"])
            if rep.get("digest") and rep["digest"] != out["digest"]:
                print("note: digest differs from recorded (%s vs %s)" % (
                    out["digest"], rep["digest"]))
        print("signature:", json.dumps(sig, sort_keys=True))
        same = sig == rep.get("signature")
        print("same signature as recorded:", same)
        known = match_known(load_known(prop), sig)
        if known:
            print("KNOWN-FINDING: property=%s %s" % (prop, known["what"]))
            return 0
        print("VIOLATION property=%s replay=%s" % (prop, path))
        return 1
    finally:
        shutil.rmtree(workdir, ignore_errors=True)


def run_check(prop, tier, root_seed):
    t0 = time.time()
    scn = core.scenario(prop)
    budget = scn.BUDGET[tier]
    variants = [v for v in ("plain", "asan") if budget.get(v)]
    for v in variants:
        build.ensure(v)
    src_hash = build.source_hash()
    known = load_known(prop)
    workdir = os.path.join(build.BUILD_ROOT, "run-%d" % os.getpid())
    shutil.rmtree(workdir, ignore_errors=True)
    os.makedirs(workdir)
    pool = Pool(workdir)
    max_s = budget.get("max_s", 100 if tier == "quick" else 3000)
    deadline = t0 + max_s
    agg = {"runs": 0, "steps": 0, "preconditions": 0, "faults": {},
           "probes": {}, "shapes": set(), "inter": set(), "nontrivial": set(),
           "samples": [], "digests": {}, "per_variant": {}}
    unlisted = []       # (variant, violation dict, is_crash)
    known_seen = {}     # what -> count
    harness_errors = []
    lines = []

    def say(s):
        print(s)
        sys.stdout.flush()
        lines.append(s)

    say("check %s tier=%s VERIF_SEED=%d build=%s variants=%s" % (
        prop, tier, root_seed, src_hash, ",".join(variants)))

    # ---- regression seeds: committed replay files of known/fixed findings
    fdir = os.path.join(VERIF, "findings")
    regress = 0
    if os.path.isdir(fdir):
        for fn in sorted(os.listdir(fdir)):
            if not fn.startswith(prop + "-") or not fn.endswith(".json"):
                continue
            with open(os.path.join(fdir, fn)) as f:
                rep = json.load(f)
            variant = rep.get("variant", "plain")
            if variant not in variants:
                build.ensure(variant)
            kind, out = pool.run_one({"kind": "replay", "prop": prop,
                                      "plan": rep["plan"], "hang_s": 200},
                                     variant, timeout=240)
            regress += 1
            if kind == "harness":
                harness_errors.append("regression %s: %s" % (fn, out))
                continue
            if kind == "crash":
                sig = crash_signature(out)
                v = {"sig": sig, "plan": rep["plan"], "detail": out["err"][-1500:],
                     "digest": None, "i": -1}
                is_crash = True
            elif out["violation"]:
                v = {"sig": out["violation"]["sig"], "plan": rep["plan"],
                     "detail": out["violation"]["detail"],
                     "digest": out["digest"], "i": -1}
                is_crash = False
            else:
                continue
            k = match_known(known, v["sig"])
            if k:
                known_seen[k["what"]] = known_seen.get(k["what"], 0) + 1
            else:
                unlisted.append((variant, v, is_crash))

    # ---- the seeded batch
    jobs = []
    for variant in variants:
        n = budget[variant]
        chunk = budget.get("chunk", max(50, min(2000, n // (NPROC * 4) or 1)))
        off = ASAN_OFFSET if variant == "asan" else 0
        i = 0
        while i < n:
            c = min(chunk, n - i)
            jobs.append((variant, off + i, c))
            i += c
    # interleave variants so both make progress under the deadline
    jobs.sort(key=lambda j: (j[1] % ASAN_OFFSET, j[0]))
    first_chunk = True
    running = []
    pending = list(jobs)
    nsamples_left = 3
    while pending or running:
        while pending and len(running) < NPROC and time.time() < deadline \
                and len(unlisted) < 6:
            variant, start, count = pending.pop(0)
            job = {"kind": "batch", "prop": prop, "tier": tier,
                   "root_seed": root_seed, "start": start, "count": count,
                   "deadline": deadline, "hang_s": max_s + 120,
                   "known": [k["signature"] for k in known],
                   "digest_upto": 8 if variant == "plain" else
                   ASAN_OFFSET + 4,
                   "nsamples": 3 if (start % ASAN_OFFSET) == 0 else 0}
            h = pool.spawn(job, variant)
            h["meta"] = (variant, start, count)
            running.append(h)
        if not running:
            break
        time.sleep(0.02)
        still = []
        for h in running:
            if h["p"].poll() is None:
                if time.time() - h["t0"] > max_s + 180:
                    h["p"].kill()
                    h["p"].wait()
                    harness_errors.append("worker timeout %r" % (h["meta"],))
                    continue
                still.append(h)
                continue
            variant, start, count = h["meta"]
            kind, out = pool.result(h)
            if kind == "harness":
                harness_errors.append(out)
                continue
            if kind == "crash":
                cur = out["cur"]
                sig = crash_signature(out)
                if cur is None:
                    harness_errors.append("worker died before first run: "
                                          + out["err"][-3000:])
                    continue
                plan = core.make_plan(prop, root_seed, cur, tier)
                v = {"sig": sig, "plan": plan, "detail": out["err"][-3000:],
                     "digest": None, "i": cur}
                k = match_known(known, sig)
                if k:
                    known_seen[k["what"]] = known_seen.get(k["what"], 0) + 1
                else:
                    unlisted.append((variant, v, True))
                agg["runs"] += max(0, cur - start + 1)
                rest = start + count - (cur + 1)
                if rest > 0:
                    pending.insert(0, (variant, cur + 1, rest))
                continue
            _merge(agg, out, variant)
            for v in out["violations"]:
                k = match_known(known, v["sig"])
                if k:
                    known_seen[k["what"]] = known_seen.get(k["what"], 0) + 1
                else:
                    unlisted.append((variant, v, False))
            for idx, n in out.get("known_counts", {}).items():
                what = known[int(idx)]["what"]
                known_seen[what] = known_seen.get(what, 0) + n
        running = still
    skipped = len(pending)

    # ---- determinism mini self-test: first 8 seeds again, other hash seed
    determinism = {"seeds": 0, "ok": None}
    if not harness_errors and "plain" in variants:
        kind, out = pool.run_one(
            {"kind": "batch", "prop": prop, "tier": tier,
             "root_seed": root_seed, "start": 0, "count": 8,
             "digest_upto": 8, "hang_s": 200, "known": []},
            "plain", timeout=240, hashseed="1")
        if kind == "ok":
            a = {k: v for k, v in agg["digests"].items() if int(k) < 8}
            b = out["digests"]
            # (digests of a chunk whose worker crashed are not available:
            # compare the seeds both runs have)
            common = sorted(set(a) & set(b))
            determinism = {"seeds": len(common), "ok": all(
                a[k] == b[k] for k in common) if common else None,
                "hashseeds": ["0", "1"]}
            if determinism["ok"] is None:
                determinism["note"] = "no common seeds (worker crash)"
            if determinism["ok"] is False:
                harness_errors.append(
                    "determinism self-test failed: %r vs %r" % (a, b))
        elif kind == "harness":
            harness_errors.append(out)

    # ---- unlisted violations: minimise, verify replay, report
    reported = []
    seen_sigs = set()
    for variant, v, is_crash in unlisted:
        key = json.dumps(v["sig"], sort_keys=True)
        if key in seen_sigs:
            continue
        seen_sigs.add(key)
        if len(reported) >= 4:
            break
        plan, digest, detail, tried = minimise_violation(
            pool, prop, variant, v["plan"], v["sig"], is_crash)
        # the minimised plan may now match a known finding exactly
        # replay in a fresh process
        kind, out = pool.run_one({"kind": "replay", "prop": prop,
                                  "plan": plan, "hang_s": 200}, variant,
                                 timeout=240)
        ok = False
        if is_crash and kind != "crash":
            # memory corruption does not always crash the same way (or at
            # all) on the plain build: try again, then ask the sanitizer
            for attempt in range(3):
                kind, out = pool.run_one({"kind": "replay", "prop": prop,
                                          "plan": plan, "hang_s": 200},
                                         variant, timeout=240)
                if kind == "crash":
                    break
            if kind != "crash" and variant == "plain":
                build.ensure("asan")
                k2, o2 = pool.run_one({"kind": "replay", "prop": prop,
                                       "plan": plan, "hang_s": 300}, "asan",
                                      timeout=330)
                if k2 == "crash":
                    kind, out, variant = k2, o2, "asan"
                    v = dict(v, sig=crash_signature(o2))
                    key = json.dumps(v["sig"], sort_keys=True)
        if kind == "crash":
            # any crash of the replay confirms a crash finding (the exact
            # symptom of heap damage varies from process to process)
            ok = is_crash or crash_signature(out) == v["sig"]
            detail = out["err"][-3000:]
        elif kind == "ok" and out["violation"]:
            ok = out["violation"]["sig"] == v["sig"]
            detail = out["violation"]["detail"]
            digest = out["digest"]
        if not ok:
            # fall back to the unminimised plan
            kind2, out2 = pool.run_one({"kind": "replay", "prop": prop,
                                        "plan": v["plan"], "hang_s": 200},
                                       variant, timeout=240)
            ok2 = (kind2 == "crash" and (is_crash or
                                         crash_signature(out2) == v["sig"])) or \
                (kind2 == "ok" and out2["violation"] and
                 out2["violation"]["sig"] == v["sig"])
            if not ok2:
                harness_errors.append(
                    "violation did not reproduce in a fresh process: %s" %
                    key)
                continue
            plan = v["plan"]
            detail = v["detail"]
            digest = v.get("digest")
        path = _write_replay(prop, variant, plan, v["sig"], digest, detail,
                             root_seed)
        reported.append(path)
        say("violation signature: %s" % key)
        say("detail: %s" % (detail or "")[:1500])
        say("VIOLATION property=%s replay=%s" % (prop, path))

    for what, n in sorted(known_seen.items()):
        say("KNOWN-FINDING: property=%s %s (seen %d times)" % (prop, what, n))

    wall = time.time() - t0
    write_evidence(prop, tier, root_seed, scn, agg, wall, known_seen,
                   len(reported), determinism, variants, src_hash, skipped,
                   regress)
    shutil.rmtree(workdir, ignore_errors=True)
    if harness_errors:
        say("HARNESS-ERROR (%d):" % len(harness_errors))
        for e in harness_errors[:3]:
            say(str(e)[-3000:])
        return 2
    say("%s: %d runs, %d steps, %.1fs, %d distinct non-trivial, "
        "%d violations, %d known findings" % (
            prop, agg["runs"], agg["steps"], wall, len(agg["nontrivial"]),
            len(reported), len(known_seen)))
    return 1 if reported else 0


def _merge(agg, out, variant):
    agg["runs"] += out["runs"]
    agg["steps"] += out["steps"]
    agg["preconditions"] += out["preconditions"]
    pv = agg["per_variant"].setdefault(variant, 0)
    agg["per_variant"][variant] = pv + out["runs"]
    for k, v in out["faults"].items():
        agg["faults"][k] = agg["faults"].get(k, 0) + v
    for k, v in out["probes"].items():
        agg["probes"][k] = agg["probes"].get(k, 0) + v
    agg["shapes"].update(out["shapes"])
    agg["inter"].update(out["inter"])
    agg["nontrivial"].update(out["nontrivial"])
    agg["digests"].update(out["digests"])
    for s in out["samples"]:
        if len(agg["samples"]) < 3:
            agg["samples"].append(s)


def write_evidence(prop, tier, root_seed, scn, agg, wall, known_seen,
                   nviol, determinism, variants, src_hash, skipped, regress):
    level = getattr(scn, "LEVEL", {}).get(tier, "exploration")
    ev = {
        "property_id": prop,
        "tier": tier,
        "seed": root_seed,
        "level": level,
        "wall_s": round(wall, 2),
        "violations": nviol,
        "coverage": {
            "evaluations": agg["runs"],
            "distinct_nontrivial": len(agg["nontrivial"]),
            "rule": getattr(scn, "RULE", ""),
            "samples": agg["samples"][:3],
            "runs_per_hour": int(agg["runs"] / wall * 3600) if wall else 0,
            "seeds": {"root": root_seed, "first_index": 0,
                      "runs_per_variant": agg["per_variant"]},
            "sim_steps": agg["steps"],
            "simulated_time_note": "BTrees has no clock; simulated time is "
                                   "the number of scheduler steps (events)",
            "fault_counts": dict(sorted(agg["faults"].items())),
            "probes": dict(sorted(agg["probes"].items())),
            "distinct_shapes": len(agg["shapes"]),
            "distinct_interleavings": len(agg["inter"]),
            "preconditions_unmet": agg["preconditions"],
            "known_findings_seen": known_seen,
            "regression_replays": regress,
            "chunks_skipped_for_deadline": skipped,
            "components": COMPONENTS,
            "determinism": determinism,
            "build": {"variants": variants, "source_hash": src_hash},
            "exhaustive": False,
        },
        "assumptions": [
            "the ZODB side (Connection, MVCC storage, conflict resolution "
            "driver, PersistentReference) is the stub in sim/world.py, "
            "written from ZODB's documented contract",
            "sampling, not enumeration: a clean batch is evidence, not proof",
        ] + list(getattr(scn, "ASSUMPTIONS", [])),
    }
    if os.environ.get("VERIF_NOEVIDENCE"):
        return      # development aid (mutant trials): keep committed evidence
    d = os.path.join(VERIF, "evidence")
    os.makedirs(d, exist_ok=True)
    with open(os.path.join(d, prop + ".json"), "w") as f:
        json.dump(ev, f, indent=1, sort_keys=True)

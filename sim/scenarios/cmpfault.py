"""C14 -- an exception raised by a key comparison leaves the container intact.

World: object-key families with hooked keys (sim/keys.py HK; tracked values
TV for OO), all four kinds, both implementations.  A seeded history builds a
shape; then one operation of a seeded kind (lookup, insert, replace, delete,
setdefault, minKey/maxKey with bound, range search, update, in-place
operators, module-level set algebra, constructor from an iterable, conflict
merge) is first executed on an identically rebuilt copy to count its key
comparisons c, and then on fresh copies with the fault `cmp-raise` at
every comparison index n <= c (fault enumeration over the placement; the
histories and operations are sampled).

Oracle after each faulted execution:
  * SimCompareError (that very class) reaches the caller;
  * with the hook disarmed the container passes _check(), check.check() and
    the independent walker;
  * its listing is the pre-operation listing or the listing of the completed
    operation (bulk mutators: per key old-or-new), operands are unchanged;
  * a follow-up workload behaves like the reference model;
  * (C, transient) reference accounting: sys.getrefcount of every key and
    value object == baseline + number of slots holding it, in all live
    containers; after everything is dropped every object is back at baseline;
  * the same plans on the ASan+UBSan build report nothing.
"""
import copy
import gc
import sys

from .. import ops, walker, keys
from ..core import Violation, Precondition
from ..domains import _detach, Domain, is_mapping, is_tree, OBJECT_KEY_FAMILIES
from . import common

PROP = "C14"
SHRINK = [["build"], ["follow"]]
BUDGET = {"quick": {"plain": 6000, "asan": 1200, "max_s": 110},
          "thorough": {"plain": 250000, "asan": 50000, "max_s": 1500}}
RULE = ("one run = one seeded shape + one seeded operation, executed once to "
        "count its c key comparisons and then on fresh copies with the n-th "
        "comparison raising, for every n<=c (capped at 48); "
        "distinct non-trivial = distinct (impl, kind, operation, comparison "
        "site class (position of n in the operation: first / inner / last, "
        "tree height), contents outcome (old / completed / mixed)) tuples "
        "where the fault really fired")
TECHNIQUE = ("fault injection at the user-callback seam: the n-th key "
             "comparison of one operation raises (hooked key class), "
             "enumerated over n in the thorough tier; soundness, "
             "old-or-new contents, follow-up workload and reference-count "
             "ledger oracles; sanitizer build")
LEVEL_TEXT = ("Seeded shapes (object-key families, 4 kinds, both "
              "implementations, heights 1-4) x seeded operation kinds "
              "(lookup, insert, replace, delete, setdefault, bounded "
              "minKey/maxKey, range search, update, in-place operators, set "
              "algebra, constructor, conflict merge) x comparison index n "
              "(enumerated): the injected "
              "exception must reach the caller, the container must stay "
              "sound with old-or-completed contents, keep working, and (C) "
              "hold exactly one reference per stored key/value; also on the "
              "ASan+UBSan build.")
LEVEL = {"quick": "fault_enumeration", "thorough": "fault_enumeration"}

BULK = ("update", "supdate", "ior", "iand", "isub", "ixor")
READONLY = ("get", "getd", "getitem", "in", "has_key", "minKey", "maxKey",
            "range", "len", "iter", "keys", "items", "values", "isdisjoint",
            "mod", "ctor", "ctork", "resolve", "viewlen", "seqidx")
_VIEW = [None]      # the lazy sequence a "viewlen" operation keeps


def plan(rng, tier):
    cfg = common.draw_cfg(rng, fams=OBJECT_KEY_FAMILIES, hk=True,
                          p_stored=0.0, p_default_sizes=0.0)
    cfg["stored"] = False
    cfg["dom"]["nk"] = rng.choice([8, 12, 16, 24, 32])
    cfg["dom"]["ext"] = False
    if cfg["dom"]["fam"] == "OO":
        cfg["dom"]["vflavor"] = rng.choice(["tv", "tv", "int"])
        cfg["dom"]["vnone"] = False
    dom = Domain(cfg["dom"])
    kind = cfg["kind"]
    mapping = is_mapping(kind)
    g = common.Gen(rng, dom, kind)
    build = g.fill(rng.randint(0, dom.nkeys))
    if rng.random() < 0.5:
        for _ in range(rng.randint(1, 3)):
            ks = g.model.skeys()
            if len(ks) < 3:
                break
            a = rng.randrange(len(ks))
            for k in ks[a:a + rng.randint(1, max(1, len(ks) // 3))]:
                op = ["del" if mapping else "remove", k]
                g.model.apply(op)
                build.append(op)
    from . import ranges, twin
    r = rng.random()
    if r < 0.55:
        # single-key / simple operations, biased to deletes that empty leaves
        if rng.random() < 0.35 and g.model.d:
            k = rng.choice(g.model.skeys())
            op = rng.choice([["del", k], ["pop", k]] if mapping
                            else [["remove", k], ["discard", k]])
        else:
            g.phase = rng.choice(["grow", "mixed", "shrink"])
            op = g.op()
    elif r < 0.65:
        meths = ranges.MAP_METHS if mapping else ranges.SET_METHS
        op = ranges._range_op(rng, g, meths)
        if is_tree(kind) and not op[1].startswith("iter") and \
                rng.random() < 0.35:
            # a lazy sequence: the comparison fails while it is being made
            # or measured (len / index / listing)
            op = ["viewlen", op, rng.choice([["len"], ["idx", -1],
                                             ["idx", 0], ["list"]])]
    elif r < 0.72:
        b = ranges._bound(rng, g, allow_special=False)
        op = [rng.choice(["minKey", "maxKey"]), b]
    elif r < 0.84:
        op = twin._modfunc(rng, g, dom, kind)
    elif r < 0.9:
        ks = g.keylist(0, 8)
        op = ["ctork", ks, rng.choice(["list", "sorted", "gen"])]
    else:
        def st():
            return sorted(set(g.keylist(0, 5)))
        op = ["resolve", st(), st(), st(),
              rng.choice([[0, 0, 0], [0, 0, 0], [1, 1, 1], [1, 2, 1],
                          [1, 1, 2], [0, 1, 0], [1, 0, 1]])]
    follow = [g.op() for _ in range(rng.randint(4, 12))]
    return {"cfg": cfg, "build": build, "op": op, "follow": follow,
            "idx": [rng.randrange(1 << 16) for _ in range(3)],
            "_all": True,
            "exc": rng.choice(["own", "own", "TypeError", "KeyError"])}


def simplify(plan):
    if len(plan["idx"]) > 1:
        for i in range(len(plan["idx"])):
            p = copy.deepcopy(plan)
            p["idx"] = [plan["idx"][i]]
            yield p


# ---------------------------------------------------------------------------

def _build(plan, dom):
    cfg = plan["cfg"]
    c = dom.new(cfg["kind"], cfg["impl"])
    for op in plan["build"]:
        ops.apply(c, op, dom, cfg["impl"], cfg["kind"])
    return c


def _occurrences(containers, dom, mapping_of):
    """{id(obj): number of slots holding it} over all live containers"""
    occ = {}

    def add(o):
        occ[id(o)] = occ.get(id(o), 0) + 1

    def leaf(st, mapping):
        items = st[0]
        for x in items:
            add(x)

    visited = set()

    def walk(c, mapping):
        if id(c) in visited:        # a node shared by two live containers
            return
        visited.add(id(c))
        st = c.__getstate__()
        if st is None:
            return
        if hasattr(c, "_firstbucket"):
            if len(st) == 1:
                leaf(st[0][0], mapping)
                return
            data = st[0]
            for i, x in enumerate(data):
                if i % 2 == 1:
                    add(x)          # separator
            seen = set()
            for ch in data[0::2]:
                if id(ch) not in seen:
                    seen.add(id(ch))
                    walk(ch, mapping)
        else:
            leaf(st, mapping)
    for c, mapping in containers:
        walk(c, mapping)
    return occ


def _do(plan, dom, c, live):
    """execute the operation under test; -> (outcome, operands)"""
    cfg = plan["cfg"]
    impl, kind = cfg["impl"], cfg["kind"]
    op = plan["op"]
    name = op[0]
    if name == "mod":
        from . import twin
        return twin._apply_mod(c, op, dom, impl)
    if name == "ctork":
        ks = [dom.key(k) for k in op[1]]
        if op[2] == "sorted":
            ks = sorted(ks, key=dom.sortkey)
        mapping = is_mapping(kind)
        if mapping:
            ks = [(k, dom.val(0)) for k in ks]
        arg = iter(ks) if op[2] == "gen" else ks
        from . import twin
        try:
            if twin.PRECALL is not None:
                twin.PRECALL()
            try:
                new = dom.cls(kind, impl)(arg)
            finally:
                if twin.POSTCALL is not None:
                    twin.POSTCALL()
            live.append((new, mapping))
            return ("ok", ops.listing(new, mapping))
        except Exception as e:
            return ops.norm_exc(e)
    if name == "viewlen":
        from . import ranges
        _VIEW[0] = None
        try:
            view = ops.call_range(c, op[1], dom)
            _VIEW[0] = view
            r = ranges._run_probe(view, op[2])
            if r[0] == "exc":
                return r
            return ("ok", None)
        except Exception as e:
            return ops.norm_exc(e)
    if name == "resolve":
        mapping = is_mapping(kind)

        # op[4] (optional): successor link of each of the three leaf states
        # (0: none, 1 / 2: one of two other leaves) -- differing links are
        # refusal 0, an exit of its own
        nxt = op[4] if len(op) > 4 else [0, 0, 0]
        succ = [None, dom.cls(kind, impl)(), dom.cls(kind, impl)()]

        def state(idx, link=0):
            items = []
            for k in idx:
                items.append(dom.key(k))
                if mapping:
                    items.append(dom.val(k % dom.nvals))
            st = (tuple(items),)
            if is_tree(kind):
                return ((st,),)
            if link:
                st = (tuple(items), succ[link])
            return st
        from BTrees.Interfaces import BTreesConflictError
        from . import twin
        s1, s2, s3 = (state(op[1], nxt[0]), state(op[2], nxt[1]),
                      state(op[3], nxt[2]))
        inst = dom.cls(kind, impl)()
        try:
            if twin.PRECALL is not None:
                twin.PRECALL()
            try:
                r = inst._p_resolveConflict(s1, s2, s3)
            finally:
                if twin.POSTCALL is not None:
                    twin.POSTCALL()
            return ("ok", "merged")
        except BTreesConflictError:
            return ("ok", "conflict")
        except Exception as e:
            return ops.norm_exc(e)
    return ops.apply(c, op, dom, impl, kind)


def _plain(lst, dom, mapping):
    """listing without references to the key/value objects (the reference
    ledger must not see the harness's own references)"""
    if mapping:
        return [(dom.pkid(k), dom.pvid(v)) for k, v in lst]
    return [dom.pkid(k) for k in lst]


def _plainout(out, dom):
    """an outcome without references to key/value objects"""
    def conv(x):
        if type(x) is keys.HK:
            return ("hk", x.n)
        if type(x) is keys.TV:
            return ("tv", x.n)
        if isinstance(x, (list, tuple)):
            return [conv(y) for y in x]
        if isinstance(x, float) and x != x:
            return "nan"
        if isinstance(x, (str, bytes)):
            return _detach(x)       # (a copy: the ledger counts references)
        if isinstance(x, (int, float, bool)) or x is None:
            return x
        return type(x).__name__
    return (out[0], conv(out[1]))


def _raise():
    raise keys.SimCompareError("injected")


# The injected exception need not be of a class of its own: user comparisons
# raise TypeError (mixed types) and KeyError too, and those are classes the
# package itself catches in places ("unusable key" -> absent, discard).  For
# the operations below neither implementation is supposed to catch anything,
# so there the fault is also injected as a plain TypeError / KeyError.
EXC_CLASSES = {"own": keys.SimCompareError, "TypeError": TypeError,
               "KeyError": KeyError}
# (not -= &= ^=: they delete through a KeyError-tolerant path by design)
NO_CATCH_OPS = ("set", "add", "sinsert", "insert", "del", "remove", "pop",
                "spop", "popitem", "update", "supdate", "ior", "ctork")


TYPEERROR_ONLY_OPS = ("in", "has_key")


def _raiser(name):
    cls = EXC_CLASSES[name]

    def f():
        raise cls("injected")
    return f


def _contents_verdict(op, L0, L1, got, mapping, extra=None):
    """'old' / 'completed' / 'mixed' / None (=neither)"""
    if ops.same_value(got, L0):
        return "old"
    if ops.same_value(got, L1):
        return "completed"
    if op[0] in BULK:
        def todict(lst):
            if mapping:
                return {k: v for k, v in lst}
            return {k: True for k in lst}
        d0, d1, dg = todict(L0), todict(L1), todict(got)
        for k in set(d0) | set(d1) | set(dg):
            a, b, c = d0.get(k, _MISS), d1.get(k, _MISS), dg.get(k, _MISS)
            if not (_same(c, a) or _same(c, b)):
                # a key assigned twice by one update() may show the
                # intermediate value
                if op[0] == "update" and mapping and c is not _MISS and \
                        extra is not None and (k, c) in extra:
                    continue
                return None
        return "mixed"
    return None


_MISS = object()


def _same(a, b):
    if a is _MISS or b is _MISS:
        return a is b
    return ops.same_value(a, b)


def keys_id(k):
    return ("hk", k.n) if type(k) is keys.HK else k


def query_sweep(c, model, dom, impl, kind, sig, what):
    """'later operations behave normally': every bounded query over the
    whole key universe against the model (a failed operation may leave a
    stale separator, an over-full or a sparse leaf behind; searches must not
    care)"""
    mapping = is_mapping(kind)
    meth = "items" if mapping else "keys"
    qs = []
    for i in range(dom.nkeys):
        qs.append(["minKey", i])
        qs.append(["maxKey", i])
        qs.append(["in", i])
    step = max(1, dom.nkeys // 6)
    for i in range(0, dom.nkeys, step):
        for fl in ((0, 0), (1, 0), (0, 1), (1, 1)):
            qs.append(["range", meth, i, "omit", fl[0], fl[1], "kw"])
            qs.append(["range", meth, "omit", i, fl[0], fl[1], "kw"])
            qs.append(["range", meth, i, min(dom.nkeys - 1, i + step + 1),
                       fl[0], fl[1], "kw"])
    for q in qs:
        want = model.apply(q)
        have = ops.apply(c, q, dom, impl, kind)
        if not ops.same_outcome(have, want):
            raise Violation(
                dict(sig, oracle="query-after", fop=q[0]),
                "%s; afterwards %r -> %r, model %r (contents %r)" % (
                    what, q, have, want, model.listing()[:40]))


def _one(plan, dom, cfg, ctx, n, ncmp, L0, L1, baseline, tracked, h, base):
    impl, kind = cfg["impl"], cfg["kind"]
    mapping = is_mapping(kind)
    op = plan["op"]
    opn = op[0] if op[0] != "mod" else op[1]
    hook = keys.HOOK
    c = _build(plan, dom)
    live = [(c, mapping)]
    excname = plan.get("exc", "own")
    if opn in TYPEERROR_ONLY_OPS:
        # membership tests turn an unusable KEY into "absent" (a TypeError
        # of the key conversion) -- a TypeError out of a key COMPARISON is
        # not theirs to swallow (seeded change C14-16)
        if excname != "TypeError":
            excname = "own"
    elif opn not in NO_CATCH_OPS:
        excname = "own"
    want_exc = EXC_CLASSES[excname].__name__
    hook.arm(n, _raiser(excname))
    out = _do(plan, dom, c, live)
    fired = hook.fired
    hook.disarm()
    if not fired:
        return
    ctx.fault("cmp-raise")
    site = "first" if n == 1 else ("last" if n == ncmp else "inner")
    sig = dict(base, site=site)
    ctx.ev(opn, n, ncmp, out[0], out[1] if out[0] == "exc" else None)
    if excname != "own":
        sig["exc"] = excname
    if out != ("exc", want_exc):
        raise Violation(
            dict(sig, oracle="not-propagated",
                 got=out[1] if out[0] == "exc" else "returned"),
            "%r with comparison %d of %d raising: the call -> %r "
            "(the injected exception must reach the caller)" % (
                op, n, ncmp, out))
    try:
        got = _plain(ops.listing(c, mapping), dom, mapping)
    except Exception as e:
        raise Violation(dict(sig, oracle="listing-raised",
                             exc=type(e).__name__),
                        "%r, comparison %d/%d raised; listing the "
                        "container afterwards raised %r" % (
                            op, n, ncmp, e))
    if is_tree(kind):
        try:
            common.structural(c, dom, cfg, None, None, who=opn)
        except Violation as v:
            raise Violation(dict(sig, oracle="unsound",
                                 by=v.sig.get("oracle")),
                            "%r, comparison %d/%d raised: %s" % (
                                op, n, ncmp, v.detail))
    if op[0] == "viewlen":
        # (the sequence object itself is not looked at again: the statement
        # is about the CONTAINER; the unchanged pure-Python _TreeItems is dead
        # after a step of its generator failed -- view[-1] says IndexError --
        # and nothing in the property forbids that)
        _VIEW[0] = None
    extra = None
    if op[0] == "update":
        extra = set((dom.pkid(ops.K(dom, kk)), dom.pvid(ops.V(dom, vv)))
                    for kk, vv in op[1])
    verdict = _contents_verdict(op, L0, L1, got, mapping, extra)
    if opn in READONLY and verdict != "old" and opn != "ctork":
        verdict = None if not ops.same_value(got, L0) else "old"
    if verdict is None:
        raise Violation(
            dict(sig, oracle="partial-contents"),
            "%r, comparison %d/%d raised: contents %r are neither "
            "the previous %r nor the completed %r" % (
                op, n, ncmp, got[:30], L0[:30], L1[:30]))
    # reference accounting (C, transient)
    if impl == "c":
        gc.collect()
        occ = _occurrences(live, dom, None)
        for o in tracked:
            want = baseline[id(o)] + occ.get(id(o), 0)
            have = sys.getrefcount(o)
            if have != want:
                raise Violation(
                    dict(sig, oracle="refcount",
                         what="leak" if have > want else "over-release",
                         obj=type(o).__name__),
                    "%r, comparison %d/%d raised: %r has refcount "
                    "%d, expected %d (baseline %d + %d slots)" % (
                        op, n, ncmp, o, have, want,
                        baseline[id(o)], occ.get(id(o), 0)))
    # follow-up workload against a model seeded from the contents
    model = ops.Model(dom, kind)
    kidx = {dom.pkid(k): i for i, k in enumerate(dom.keys)}
    vidx = {}
    for j, v in enumerate(dom.vals):
        vidx.setdefault(dom.pvid(v), j)
    for e in got:
        k = e[0] if mapping else e
        model.d[kidx[k]] = vidx[e[1]] if mapping else True
    query_sweep(c, model, dom, impl, kind, sig,
                "%r, comparison %d/%d raised" % (op, n, ncmp))
    for f in plan["follow"]:
        want = model.apply(f)
        have = ops.apply(c, f, dom, impl, kind)
        if f[0] in ("update", "supdate") and have[0] == "ok":
            have = ("ok", None)
        if not ops.same_outcome(have, want) or not ops.same_value(
                ops.listing(c, mapping), model.listing()):
            raise Violation(
                dict(sig, oracle="follow-up", fop=f[0]),
                "%r, comparison %d/%d raised; afterwards %r -> %r, "
                "model %r" % (op, n, ncmp, f, have, want))
    if is_tree(kind):
        try:
            common.structural(c, dom, cfg, None, None, who="follow")
        except Violation as v:
            raise Violation(dict(sig, oracle="unsound-later",
                                 by=v.sig.get("oracle")), v.detail)
    if impl == "c":
        # the ledger once more, so that a leak made by the (fault-free)
        # follow-up workload is not blamed on the next faulted execution
        have = want = f = e = v = k = None
        gc.collect()
        occ = _occurrences(live, dom, None)
        for o in tracked:
            w = baseline[id(o)] + occ.get(id(o), 0)
            hv = sys.getrefcount(o)
            if hv != w:
                raise Violation(
                    dict(base, oracle="refcount-after-follow",
                         what="leak" if hv > w else "over-release",
                         obj=type(o).__name__,
                         fops="+".join(sorted(set(x[0] for x in
                                                  plan["follow"])))),
                    "after the fault-free follow-up workload %r: %r has "
                    "refcount %d, expected %d" % (plan["follow"], o, hv, w))
    ctx.nontriv((impl, kind, opn, site, min(h, 4), verdict))
    ctx.interleaving((opn, site, verdict))


def execute(plan, ctx):
    from .. import env
    cfg = plan["cfg"]
    env.activate(ctx.variant)
    dom = Domain(cfg["dom"])
    dom.set_node_sizes(cfg.get("leaf"), cfg.get("internal"))
    impl, kind = cfg["impl"], cfg["kind"]
    mapping = is_mapping(kind)
    op = plan["op"]
    opn = op[0] if op[0] != "mod" else op[1]
    hook = keys.HOOK
    hook.reset()
    base = {"impl": impl, "kind": kind, "op": opn}
    tracked = list(dom.keys) + [v for v in dom.vals
                                if type(v) is keys.TV]
    gc.collect()
    baseline = {id(o): sys.getrefcount(o) for o in tracked}
    try:
        # ---- reference execution: count comparisons, completed listing
        c0 = _build(plan, dom)
        L0 = _plain(ops.listing(c0, mapping), dom, mapping)
        live0 = [(c0, mapping)]
        hook.counting()
        out0 = _do(plan, dom, c0, live0)
        ncmp = hook.count
        hook.disarm()
        L1 = _plain(ops.listing(c0, mapping), dom, mapping)
        h = 0
        if is_tree(kind):
            try:
                h = walker.walk(c0, dom, mapping).height
            except Exception:
                h = -1
        del c0, live0
        if out0[0] == "ok":
            out0 = ("ok", None)     # drop references held by the result
        if out0[0] == "exc" and out0[1] == "SimCompareError":
            raise Precondition("hook fired while counting")
        if ncmp == 0:
            ctx.probe("no-comparisons")
            return
        tier_all = plan.get("_all")
        # every comparison index of the operation (up to 48; beyond that
        # the first 24, the last 8 and the planned ones)
        if tier_all and ncmp <= 48:
            idxs = range(1, ncmp + 1)
        elif tier_all:
            idxs = sorted(set(range(1, 25)) | set(range(ncmp - 7, ncmp + 1))
                          | set(1 + x % ncmp for x in plan["idx"]))
        else:
            idxs = sorted(set(1 + x % ncmp for x in plan["idx"]))
        for n in idxs:
            _one(plan, dom, cfg, ctx, n, ncmp, L0, L1, baseline, tracked,
                 h, base)
        # ---- everything dropped: back at baseline
        if impl == "c":
            gc.collect()
            for o in tracked:
                have = sys.getrefcount(o)
                if have != baseline[id(o)]:
                    raise Violation(
                        dict(base, oracle="refcount-final",
                             what="leak" if have > baseline[id(o)]
                             else "over-release", obj=type(o).__name__),
                        "after dropping every container %r has refcount %d, "
                        "baseline %d (operation %r)" % (
                            o, have, baseline[id(o)], op))
    finally:
        hook.reset()


def _val_index(dom, v):
    for j, x in enumerate(dom.vals):
        if x is v or ops.same_value(x, v):
            return j
    raise Precondition("value not in universe")

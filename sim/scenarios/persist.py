"""C04 -- every change reaches the database: commit + reload reproduces the
contents; abort restores the last committed contents.

World: one SimStorage; a writer connection W (C or Python build); after every
commit a *fresh* reader connection R (empty cache; same or the other
implementation) loads the stored records.  The history is cut into
transactions that end in commit, abort, crash of the writer (connection
dropped, a new writer continues from storage) or a crash between vote and
finish (staged records are lost).  Between operations W's cache may be swept,
so that nodes are evicted after a commit, reloaded and modified again -- the
path where a lost change flag cannot be seen in memory.

Oracles (deliberately *not* the reference model, so an API bug cannot raise a
C04 alarm):
  reload      R's listing == W's listing at the commit; R's tree passes
              _check() and the independent walker
  unannounced after a successful commit every non-ghost object in W's cache,
              re-serialised from memory, equals its stored record (structural
              comparison, persistent references by oid) -- the direct form of
              "exactly the registered objects suffice"
  abort       after abort / crash the (re-opened) writer lists the last
              committed contents and its tree is sound
  2pc         after a crash between vote and finish the storage holds exactly
              the pre-transaction revisions
"""
import copy
import io
import pickle

from .. import ops, walker
from ..core import Violation, Precondition
from ..domains import Domain, is_mapping, is_tree
from . import common

PROP = "C04"
SHRINK = [["ops"]]
BUDGET = {"quick": {"plain": 24000, "max_s": 100},
          "thorough": {"plain": 600000, "max_s": 1500}}
RULE = ("one run = one seeded history (15-120 operations) on a stored "
        "container cut into transactions ending in commit / abort / writer "
        "crash / crash between vote and finish, with cache sweeps between "
        "operations; after every commit a fresh reader is compared with the "
        "writer and every cached object with its stored record; distinct "
        "non-trivial = distinct (impl, reader impl, kind, shape signature at "
        "the commit, set of structural transition classes inside the "
        "transaction, how the transaction ended) tuples")
TECHNIQUE = ("deterministic simulation of writer / storage / fresh reader "
             "with seeded commit, abort, crash, cache-eviction and "
             "failing-operation (comparison / allocation) points; "
             "reader-vs-writer and record-vs-memory oracles")
LEVEL_TEXT = ("Seeded histories on stored containers (all families, 4 kinds, "
              "both implementations, reader of the same or the other "
              "implementation, small and default node sizes, root object or "
              "value of another stored container) cut into transactions at "
              "arbitrary points with commit / abort / writer crash / crash "
              "between vote and finish and cache sweeps, and with writes that "
              "fail half-way (n-th key comparison raises, n-th allocation "
              "fails, also inside a node load); user subclasses; fresh-reader "
              "and record-vs-memory oracles. Sampling.")
ASSUMPTIONS = ["commit writes exactly the objects that called register() "
               "plus objects newly reachable from them (ZODB's rule)"]

FAILABLE = ("set", "del", "insert", "setdefault", "pop", "popd", "popitem",
            "update", "clear", "add", "sinsert", "remove", "discard", "spop",
            "supdate", "ior", "iand", "isub", "ixor")
ENDS = ["commit", "commit", "commit", "commit", "abort", "crash", "crash2pc"]


def plan(rng, tier):
    cfg = common.draw_cfg(rng, p_stored=1.0, p_default_sizes=0.06,
                          p_sub=0.1)
    cfg["stored"] = True
    cfg["reader_impl"] = rng.choice(["c", "py"]) if rng.random() < 0.3 \
        else cfg["impl"]
    cfg["place"] = rng.choice(["root", "root", "value"])
    cfg["dom"]["nk"] = rng.choice([10, 16, 24, 32, 48])
    pre = 0
    if cfg["leaf"] is None and is_tree(cfg["kind"]):
        cfg["dom"]["nk"] = rng.choice([300, 700])
        cfg["dom"]["ext"] = False
        pre = cfg["dom"]["nk"] * 2 // 3
    mlist = False
    if cfg["dom"]["fam"][1] == "O" and is_mapping(cfg["kind"]) and \
            rng.random() < 0.4:
        # mutable values, changed in place and assigned again
        cfg["dom"]["vflavor"] = "mlist"
        cfg["dom"]["vnone"] = False
        mlist = True
    # operations that FAIL half-way (fault kinds of C14 / C17 inside C04's
    # world): the n-th key comparison of a write raises (object keys of the
    # hooked class), or the n-th allocation of a write fails (C build, guarded
    # hook).  Whatever such a call did change must be announced like any other
    # change -- the oracles stay reader == writer and record == memory.
    ffault = None
    if not pre and not mlist and rng.random() < 0.3:
        if cfg["dom"]["fam"][0] == "O" and rng.random() < 0.6:
            ffault = "cmp"
            cfg["dom"]["kflavor"] = "hk"
            cfg["dom"].pop("none", None)
            cfg["dom"]["ext"] = False
        elif cfg["impl"] == "c":
            ffault = "alloc"
    cfg["ffault"] = ffault
    if cfg["dom"]["fam"][1] == "F" and rng.random() < 0.2:
        cfg["dom"]["vnan"] = True       # NaN among the values
    dom = Domain(cfg["dom"])
    g = common.Gen(rng, dom, cfg["kind"])
    # (a read that computes with the values: nothing may change, in memory
    # or -- unannounced -- behind the database's back)
    g.p_byvalue = 0.04
    out = []
    if pre:
        out.extend(g.fill(pre))
        out.append(["commit"])
    elif rng.random() < 0.5:
        out.extend(g.fill(rng.randint(0, dom.nkeys)))
        out.append(["commit"])
    if not pre and rng.random() < 0.15:
        # several leaves, commit, shrink to one or two keys, commit: the
        # remaining leaf has a record of its own; then go on
        out.extend(g.fill(rng.randint(dom.nkeys // 2, dom.nkeys)))
        out.append(["commit"])
        ks = g.model.skeys()
        rng.shuffle(ks)
        for k in ks[rng.randint(1, 2):]:
            op = ["del" if g.mapping else "remove", k]
            g.model.apply(op)
            out.append(op)
        out.append(["commit"])
    committed = dict(g.model.d)
    n = rng.randint(15, 70) if tier == "quick" else rng.choice(
        [30, 60, 120, 200])
    txn_len = rng.choice([1, 2, 3, 5, 8, 15])
    left = n
    while left > 0:
        k = max(1, min(left, rng.randint(1, txn_len * 2)))
        g.phase = rng.choice(["grow", "mixed", "shrink", "shrink", "mixed"])
        if g.phase == "shrink" and rng.random() < 0.5 and g.model.d:
            ks = g.model.skeys()
            a = rng.randrange(len(ks))
            for kk in ks[a:a + k]:
                op = ["del" if g.mapping else "remove", kk]
                g.model.apply(op)
                out.append(op)
                if rng.random() < 0.15:
                    out.append(_sweep(rng))
        else:
            for _ in range(k):
                if mlist and g.model.d and rng.random() < 0.2:
                    # v = t[k]; v.append(..); t[k] = v  (the same object)
                    out.append(["remut", rng.choice(g.model.skeys())])
                else:
                    o = g.op()
                    if ffault and o[0] in FAILABLE and rng.random() < 0.3:
                        if rng.random() < 0.5:
                            # everything off the path is a ghost: loading a
                            # node is one of the things that can fail
                            out.append(["sweep", "minimize", 0])
                        o = ["faulty", ffault,
                             rng.randint(1, 14 if ffault == "cmp" else 8), o]
                    out.append(o)
                if rng.random() < 0.12:
                    out.append(_sweep(rng))
        left -= k
        end = rng.choice(ENDS)
        out.append([end])
        if end == "commit":
            committed = dict(g.model.d)
        else:
            g.model.d = dict(committed)
        if rng.random() < 0.2:
            out.append(_sweep(rng))
    out.append(["commit"])
    return {"cfg": cfg, "ops": out}


def _sweep(rng):
    return ["sweep", rng.choice(["minimize", "minimize", "incrgc", "some"]),
            rng.randrange(1 << 16)]


def simplify(plan):
    cfg = plan["cfg"]
    if cfg["place"] != "root":
        p = copy.deepcopy(plan)
        p["cfg"]["place"] = "root"
        yield p
    if cfg["reader_impl"] != cfg["impl"]:
        p = copy.deepcopy(plan)
        p["cfg"]["reader_impl"] = cfg["impl"]
        yield p
    for i, o in enumerate(plan["ops"]):
        if o[0] in ("abort", "crash", "crash2pc"):
            p = copy.deepcopy(plan)
            p["ops"][i] = ["commit"]
            yield p
    for i, o in enumerate(plan["ops"]):
        if o[0] == "faulty":
            p = copy.deepcopy(plan)
            p["ops"][i] = o[3]
            yield p


# ---------------------------------------------------------------------------

def _norm_state(data):
    """unpickle a record with persistent references turned into ("ref", oid)"""
    u = pickle.Unpickler(io.BytesIO(data))
    u.persistent_load = lambda ref: ("ref", ref[0])
    cls = u.load()
    return cls, u.load()


class _World(object):
    def __init__(self, cfg, ctx):
        from ..world import SimStorage, SimConnection
        self.cfg = cfg
        self.ctx = ctx
        self.dom = Domain(cfg["dom"])
        self.dom.set_node_sizes(cfg.get("leaf"), cfg.get("internal"))
        self.st = SimStorage(cfg.get("protocol", 3))
        self.SimConnection = SimConnection
        self.kind = cfg["kind"]
        self.mapping = is_mapping(self.kind)
        self.hazard = False
        self.root_oid = None
        self.w = None
        self.c = None

    def open_writer(self, first=False):
        cfg = self.cfg
        self.w = self.SimConnection(self.st, cfg["impl"])
        if first:
            c = self.dom.new(self.kind, cfg["impl"])
            if cfg["place"] == "root":
                self.root_oid = self.w.add(c)
            else:
                from BTrees.OOBTree import OOBucket, OOBucketPy
                holder = (OOBucketPy if cfg["impl"] == "py" else OOBucket)()
                holder["x"] = c
                self.root_oid = self.w.add(holder)
            self.c = c
        else:
            self.c = self._get(self.w)
        return self.c

    def _get(self, conn):
        o = conn.get(self.root_oid)
        if self.cfg["place"] == "root":
            return o
        return o["x"]

    def listing(self, c):
        lst = ops.listing(c, self.mapping)
        if self.dom.vflavor == "mlist":
            # (mutable values: a recorded listing must not change when the
            # application later changes a value in place)
            lst = copy.deepcopy(lst)
        return lst

    def sound(self, c, who, impl):
        if not is_tree(self.kind):
            return None
        cfg = dict(self.cfg, impl=impl)
        return common.structural(c, self.dom, cfg, None, None,
                                 check_sizes=False, who=who)


def _sig(world, oracle, **kw):
    cfg = world.cfg
    s = {"oracle": oracle, "impl": cfg["impl"], "kind": cfg["kind"]}
    s.update(kw)
    if world.hazard:
        s["hazard"] = "inline-duplicate"
    return s


def execute(plan, ctx):
    from ..world import CrashInCommit, GHOST
    from .. import env
    cfg = plan["cfg"]
    env.activate(ctx.variant)
    wd = _World(cfg, ctx)
    dom = wd.dom
    impl, kind = cfg["impl"], cfg["kind"]
    c = wd.open_writer(first=True)
    # the container is made durable (empty) first, so that abort has a
    # committed state to return to
    wd.w.commit()
    committed = wd.listing(c)
    trans = set()
    prev_walk = None
    nops = 0
    for op in plan["ops"]:
        name = op[0]
        if name == "sweep":
            w = wd.w
            if op[1] == "some":
                nodes = w.nodes()
                pick = set(o._p_oid for j, o in enumerate(nodes)
                           if (op[2] >> (j % 16)) & 1)
                n = w.sweep("deactivate", pick)
            elif op[1] == "incrgc":
                n = w.sweep("incrgc", 1 + op[2] % 4)
            else:
                n = w.sweep("minimize")
            if n:
                ctx.fault("evict-between", n)
            ctx.ev("sweep", op[1], n)
            continue
        if name == "commit":
            try:
                view = wd.listing(c)
            except Exception as e:
                raise Violation(_sig(wd, "writer-view", what="exception",
                                     exc=type(e).__name__),
                                "the writer cannot list its own container "
                                "before commit: %r" % (e,))
            try:
                tid, oids, _ = wd.w.commit()
            except Exception as e:
                raise Violation(_sig(wd, "commit-raised",
                                     exc=type(e).__name__),
                                "commit raised %r" % (e,))
            if wd.w.hazards:
                wd.hazard = True
            ctx.fault("commit")
            ctx.ev("commit", len(oids))
            ctx.probe("records-per-commit-%d" % min(len(oids), 8))
            # writer's own view unchanged by committing
            if not ops.same_value(wd.listing(c), view):
                raise Violation(_sig(wd, "writer-view-changed"),
                                "writer's listing changed across commit")
            # fresh reader
            r = wd.SimConnection(wd.st, cfg["reader_impl"])
            try:
                rc = wd._get(r)
                got = wd.listing(rc)
            except Exception as e:
                raise Violation(_sig(wd, "reload", what="exception",
                                     exc=type(e).__name__),
                                "fresh reader failed: %r" % (e,))
            if not ops.same_value(got, view):
                raise Violation(_sig(wd, "reload", what="contents"),
                                "fresh reader lists %r, writer saw %r" % (
                                    got[:30], view[:30]))
            try:
                wk = wd.sound(rc, "reader", cfg["reader_impl"])
            except Violation as v:
                raise Violation(_sig(wd, "reload", what="unsound",
                                     by=v.sig.get("oracle"),
                                     problem=v.sig.get("problem")), v.detail)
            # lookups through the reader's tree reach every listed key
            if is_tree(kind):
                for k in (got if not wd.mapping else [x[0] for x in got]):
                    if k not in rc:
                        raise Violation(
                            _sig(wd, "reload", what="unreachable-key"),
                            "key %r listed but not found by lookup" % (k,))
            _unannounced(wd, ctx)
            committed = view
            shape = wk.shape if wk is not None else len(view)
            if wk is not None:
                ctx.shape(wk.shape)
            ctx.nontriv((impl, cfg["reader_impl"], kind, shape,
                         tuple(sorted(trans)), "commit"))
            ctx.interleaving(("commit", tuple(sorted(trans))))
            trans = set()
            prev_walk = None
            continue
        if name in ("abort", "crash", "crash2pc"):
            before_tid = wd.st.tid
            if name == "abort":
                wd.w.abort()
                ctx.fault("abort")
            elif name == "crash":
                wd.w.close()
                c = wd.open_writer()
                ctx.fault("crash-writer")
            else:
                try:
                    wd.w.commit(crash="after_vote")
                    raise Violation(_sig(wd, "2pc"), "crash did not happen")
                except CrashInCommit:
                    pass
                except Violation:
                    raise
                except Exception as e:
                    raise Violation(_sig(wd, "commit-raised",
                                         exc=type(e).__name__),
                                    "commit raised %r" % (e,))
                ctx.fault("crash-in-2pc")
                if wd.st.tid != before_tid:
                    raise Violation(_sig(wd, "2pc"),
                                    "storage changed by an unfinished commit")
                wd.w.close()
                c = wd.open_writer()
            ctx.ev(name)
            try:
                got = wd.listing(c)
            except Exception as e:
                raise Violation(_sig(wd, "abort", end=name, what="exception",
                                     exc=type(e).__name__),
                                "listing after %s failed: %r" % (name, e))
            if not ops.same_value(got, committed):
                raise Violation(_sig(wd, "abort", end=name, what="contents"),
                                "after %s the writer lists %r, last "
                                "committed %r" % (name, got[:30],
                                                  committed[:30]))
            try:
                wd.sound(c, "writer-after-" + name, impl)
            except Violation as v:
                raise Violation(_sig(wd, "abort", end=name, what="unsound",
                                     by=v.sig.get("oracle")), v.detail)
            ctx.nontriv((impl, kind, len(got), tuple(sorted(trans)), name))
            ctx.interleaving((name, tuple(sorted(trans))))
            trans = set()
            prev_walk = None
            continue
        if name == "remut":
            try:
                v_ = c.get(ops.K(dom, op[1]))
                if type(v_) is list:
                    v_.append(len(v_))
                    c[ops.K(dom, op[1])] = v_
                    ctx.probe("mutable-value-reassigned")
                v_ = None
                got = ("ok", None)
            except Exception as e:
                got = ops.norm_exc(e)
        elif name == "faulty":
            got = _faulty(op, c, dom, impl, kind, ctx)
            name = op[3][0]
            if got[0] == "exc":
                # whether the failed call left the container sound is C14's
                # and C17's business, not this property's: a run in which it
                # did not is given up here (and counted)
                try:
                    wd.listing(c)
                    if is_tree(kind):
                        c._check()
                except Exception:
                    ctx.probe("abandoned:container-damaged-by-failed-call")
                    raise Precondition("failed call left the container "
                                       "damaged (C14 / C17)")
        else:
            got = ops.apply(c, op, dom, impl, kind)
        nops += 1
        ctx.ev(name, got[0], got[1] if got[0] == "exc" else None)
        if is_tree(kind) and dom.nkeys <= 64:
            try:
                wk = walker.walk(c, dom, wd.mapping)
            except Exception:
                wk = None
            if wk is not None:
                for t in walker.transitions(prev_walk, wk):
                    trans.add(t)
                    ctx.probe(t)
                prev_walk = wk


def _faulty(op, c, dom, impl, kind, ctx):
    """the operation op[3] with its op[2]-th key comparison raising / its
    op[2]-th allocation failing (if it makes that many)"""
    import sys
    from .. import keys
    _, fk, n, inner = op
    if fk == "cmp":
        def boom():
            raise keys.SimCompareError("injected")
        ops.PRECALL = lambda: keys.HOOK.arm(n, boom)
        ops.POSTCALL = keys.HOOK.disarm
        try:
            got = ops.apply(c, inner, dom, impl, kind)
        finally:
            ops.PRECALL = ops.POSTCALL = None
            fired = keys.HOOK.fired
            keys.HOOK.disarm()
        if fired:
            ctx.fault("cmp-raise")
            ctx.probe("failed-op-" + got[0])
        return got
    cm = sys.modules["BTrees._%sBTree" % dom.fam]
    fired = [0]

    def post():
        fired[0] = cm._verif_alloc_stats()[1]
        cm._verif_alloc_arm(0)
    ops.PRECALL = lambda: cm._verif_alloc_arm(n)
    ops.POSTCALL = post
    try:
        got = ops.apply(c, inner, dom, impl, kind)
    finally:
        ops.PRECALL = ops.POSTCALL = None
        cm._verif_alloc_arm(0)
    if fired[0]:
        ctx.fault("alloc-fail")
        ctx.probe("failed-op-" + got[0])
    return got


def _unannounced(wd, ctx):
    """every non-ghost object in the writer's cache must equal its stored
    record when re-serialised from memory"""
    from ..world import GHOST
    w = wd.w
    n = 0
    for obj in w.nodes():
        if obj._p_state == GHOST:
            continue
        oid = obj._p_oid
        new_objs = []
        try:
            data = w.serialize(obj, new_objs)
        except Exception as e:
            raise Violation(_sig(wd, "unannounced", what="serialize-failed"),
                            "re-serialising %r failed: %r" % (oid, e))
        if new_objs:
            raise Violation(_sig(wd, "unannounced", what="new-object"),
                            "object %r references an object that was "
                            "never written" % (oid,))
        stored, _ = wd.st.load_before(oid, wd.st.tid + 1)
        a = _norm_state(data)
        b = _norm_state(stored)
        n += 1
        if not ops.same_value(_tup(a), _tup(b)):
            raise Violation(
                _sig(wd, "unannounced", what="state-differs",
                     cls=a[0][1]),
                "object %r (%s) differs from its stored record although it "
                "was not written:\n memory %r\n stored %r" % (
                    oid, a[0][1], a[1], b[1]))
    ctx.probe("record-vs-memory-compared", n)


def _tup(x):
    return x

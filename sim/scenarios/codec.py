"""C06 -- serialized state round-trips, identically in C and Python.

Phase 1, a *mixed deployment* on one storage: the same seeded history, cut
into transactions, is executed three times -- by an all-C deployment, an
all-Python deployment and a mixed one in which every transaction is run by a
fresh connection of the other implementation (each loads what the other
wrote, continues and commits; `impl-switch` fault).  After every commit the
three storages must hold byte-identical records for every oid, and the
mixed deployment's tree, loaded by fresh readers of both implementations,
must list the all-C contents and be sound.

Phase 2, transient replicas (one per implementation) receive the same
history; at planned points one of them is replaced by a reconstruction of
itself or of the *other* replica through one of the codec routes:
  __getstate__ -> __setstate__ of a fresh instance (same or other
  implementation, children converted recursively), pickle.dumps/loads under
  protocol 0-5 (loading into either implementation), copy.copy,
  copy.deepcopy.
Every reconstruction must list the source's contents, be sound and stay
usable: the rest of the history runs on it and the replicas must keep
agreeing; at the end their pickles must be byte-identical for protocols 0-5.
"""
import copy
import io
import pickle

from .. import ops, walker
from ..core import Violation, Precondition
from ..domains import Domain, is_mapping, is_tree
from . import common

PROP = "C06"
SHRINK = [["ops"]]
BUDGET = {"quick": {"plain": 12000, "max_s": 100},
          "thorough": {"plain": 300000, "max_s": 1500}}
RULE = ("one run = one seeded history with transaction boundaries and codec "
        "points, executed by an all-C, an all-Python and a mixed deployment "
        "on simulated storages (byte-identity of all records after every "
        "commit) and on two transient replicas with codec round trips; "
        "distinct non-trivial = distinct (family class, kind, codec route, "
        "source impl, target impl, state form of the source (empty / "
        "embedded leaf / multi-level with height)) tuples plus (family "
        "class, kind, state form) tuples whose stored records were compared")
TECHNIQUE = ("deterministic simulation of a mixed C / Python deployment on "
             "one storage with seeded implementation switches, plus seeded "
             "codec round trips on replicas; byte-identity and "
             "contents/soundness/usability oracles")
LEVEL_TEXT = ("Seeded histories over all 22 families x 4 kinds x node sizes: "
              "all-C, all-Python and alternating deployments on simulated "
              "storages must write byte-identical records after every "
              "commit and read each other's records; transient replicas are "
              "rebuilt through getstate/setstate (same and other "
              "implementation), pickle protocols 0-5 (into either "
              "implementation), copy and deepcopy and must keep equal "
              "ordered contents, stay sound and usable; final pickles "
              "byte-identical for protocols 0-5; user subclasses (a tree "
              "class naming its own leaf class) through every route, every "
              "leaf of the reconstruction must be of that class. Sampling.")

ROUTES = ["state-same", "state-other", "pickle", "pickle-other", "copy",
          "deepcopy", "restore", "restore"]


def plan(rng, tier):
    cfg = common.draw_cfg(rng, impls=("c",), p_stored=0.0,
                          p_default_sizes=0.06)
    cfg["stored"] = False
    if rng.random() < 0.15:
        # user subclasses: a tree class that names a leaf class of its own
        # (`_bucket_type`), a trivial subclass of a Bucket / Set.  (A trivial
        # subclass of a *Py TREE class cannot go through plain pickle in a
        # process that also has the C extension: DESIGN section 10.)
        cfg["dom"]["sub"] = "leaf" if is_tree(cfg["kind"]) else True
    if cfg["internal"] == 2 and rng.random() < 0.7:
        cfg["internal"] = rng.choice([3, 4])
    cfg["dom"]["nk"] = rng.choice([8, 12, 16, 24, 32])
    pre = 0
    if cfg["leaf"] is None and is_tree(cfg["kind"]):
        cfg["dom"]["nk"] = rng.choice([200, 400])
        cfg["dom"]["ext"] = False
        pre = cfg["dom"]["nk"] * 2 // 3
    dom = Domain(cfg["dom"])
    g = common.Gen(rng, dom, cfg["kind"])
    out = []
    if pre:
        out.extend(g.fill(pre))
        out.append(["commit"])
    if not pre and rng.random() < 0.2:
        # grow to several leaves, commit, shrink to very few keys, commit,
        # modify, commit: the single remaining leaf has a record of its own
        out.extend(g.fill(rng.randint(dom.nkeys // 2, dom.nkeys)))
        out.append(["commit"])
        ks = g.model.skeys()
        rng.shuffle(ks)
        for k in ks[rng.randint(1, 2):]:
            op = ["del" if g.mapping else "remove", k]
            g.model.apply(op)
            out.append(op)
        out.append(["commit"])
        for _ in range(rng.randint(1, 3)):
            out.append(g.op())
        out.append(["commit"])
    n = rng.randint(15, 60) if tier == "quick" else rng.choice(
        [30, 60, 120])
    p_commit = rng.choice([0.05, 0.15, 0.4])
    p_codec = rng.choice([0.05, 0.12, 0.25])
    for _ in range(n):
        if rng.random() < 0.25:
            g.phase = rng.choice(["grow", "grow", "mixed", "shrink"])
        out.append(g.op())
        if rng.random() < p_commit:
            out.append(["commit"])
        if rng.random() < p_codec:
            out.append(["codec", rng.choice(ROUTES), rng.choice(["c", "py"]),
                        rng.randrange(6)])
    out.append(["commit"])
    out.append(["codec", rng.choice(ROUTES), rng.choice(["c", "py"]),
                rng.randrange(6)])
    return {"cfg": cfg, "ops": out, "pre": pre}


def simplify(plan):
    for i, o in enumerate(plan["ops"]):
        if o[0] == "codec" and o[1] not in ("state-same", "copy"):
            p = copy.deepcopy(plan)
            p["ops"][i][1] = "state-same"
            yield p


# ---------------------------------------------------------------------------

def _other(impl):
    return "py" if impl == "c" else "c"


def _impl_of(obj):
    return "py" if type(obj).__name__.endswith("Py") else "c"


def _cls_as(obj, impl):
    import sys
    t = type(obj)
    name = t.__name__
    if name.endswith("Py"):
        name = name[:-2]
    mod = sys.modules[t.__module__]
    return getattr(mod, name + ("Py" if impl == "py" else ""))


def _is_node(x):
    return type(x).__module__.startswith(("BTrees.", "sim.subcls")) and \
        hasattr(x, "__getstate__") and hasattr(x, "_p_oid")


def convert(obj, impl, memo=None):
    """rebuild obj (a BTrees container) as implementation `impl` through
    __getstate__ / __setstate__ only, children and successors included"""
    if memo is None:
        memo = {}
    if id(obj) in memo:
        return memo[id(obj)]
    new = _cls_as(obj, impl)()
    memo[id(obj)] = new

    def f(x):
        if isinstance(x, tuple):
            # (a tuple may also be a *key*: rebuilt tuples are memoised by
            # identity so that the sharing of key objects between a
            # separator and its leaf survives the conversion)
            r = memo.get(("t", id(x)))
            if r is None:
                parts = tuple(f(y) for y in x)
                r = x if all(a is b for a, b in zip(parts, x)) else parts
                memo[("t", id(x))] = r
                memo[("keep", id(x))] = x
            return r
        if _is_node(x):
            return convert(x, impl, memo)
        return x
    new.__setstate__(f(obj.__getstate__()))
    return new


class _SubUnpickler(pickle.Unpickler):
    """loads the user subclasses of sim/subcls.py as the variants of one
    implementation (a deployment has only one of the two class sets)"""

    def __init__(self, f, impl):
        pickle.Unpickler.__init__(self, f)
        self.impl = impl

    def find_class(self, module, name):
        if module == "sim.subcls":
            from .. import subcls
            stem = name[:-2] if name.endswith("Py") else name
            return getattr(subcls, stem + ("Py" if self.impl == "py" else ""))
        if self.impl == "py":
            return _PyUnpickler.find_class(self, module, name)
        return pickle.Unpickler.find_class(self, module, name)


class _PyUnpickler(pickle.Unpickler):
    """loads BTrees classes as their pure-Python variants"""

    def find_class(self, module, name):
        import sys
        if module.startswith("BTrees.") and module != "BTrees.Length":
            __import__(module)
            m = sys.modules[module]
            if hasattr(m, name + "Py"):
                return getattr(m, name + "Py")
        return pickle.Unpickler.find_class(self, module, name)


def _form(c, kind):
    if not is_tree(kind):
        return "leaf-%d" % min(len(c), 3)
    st = c.__getstate__()
    if st is None:
        return "empty"
    if len(st) == 1:
        return "embedded"
    h = 1
    node = c
    while True:
        st = node.__getstate__()
        child = st[0][0]
        if type(child) is type(c):
            h += 1
            node = child
        else:
            break
    return "levels-%d" % h


def _inline_nonroot(c, kind):
    """True if some NON-ROOT node of the tree serialises its only leaf
    inline (the known C04/C06 finding: that leaf is then duplicated by every
    route that goes through __getstate__)"""
    if not is_tree(kind):
        return False
    st = c.__getstate__()
    if st is None or len(st) == 1:
        return False
    tt = type(c)

    def walk(node, root):
        s = node.__getstate__()
        if s is None:
            return False
        if len(s) == 1:
            return not root
        return any(walk(ch, False) for ch in s[0][0::2] if type(ch) is tt)
    return walk(c, True)


def _snapshot(c):
    """[(node, state)] for the container and every node reachable from it"""
    out = []
    seen = set()

    def walk(x):
        if id(x) in seen:
            return
        seen.add(id(x))
        st = x.__getstate__()
        out.append((x, st))

        def f(y):
            if isinstance(y, tuple):
                for z in y:
                    f(z)
            elif _is_node(y):
                walk(y)
        f(st)
    walk(c)
    walk = None     # (break the closure cycle: see sim/walker.py)
    return out


def _inline_nonroot_state(obj, st, root):
    return obj is not root and hasattr(obj, "_firstbucket") and \
        isinstance(st, tuple) and len(st) == 1


def _foreign_leaves(c):
    """for a tree whose class names a leaf class of its own: the classes of
    leaves that are NOT of that class, of interior nodes that are not of the
    tree's class"""
    want = type(c)._bucket_type
    bad = set()
    todo = [c]
    while todo:
        node = todo.pop()
        st = node.__getstate__()
        if st is None:
            continue
        if len(st) == 1:
            # the embedded leaf has no identity in the state: ask the tree
            fb = node._firstbucket
            if type(fb) is not want:
                bad.add(type(fb).__name__)
            continue
        for ch in st[0][0::2]:
            if type(ch) is type(c):
                todo.append(ch)
            elif type(ch) is not want:
                bad.add(type(ch).__name__)
    return sorted(bad)


def _sound(c, dom, cfg, impl, who):
    if not is_tree(cfg["kind"]):
        return
    if cfg["dom"].get("sub") == "leaf":
        bad = _foreign_leaves(c)
        if bad:
            raise Violation({"oracle": "leaf-class", "impl": impl,
                             "kind": cfg["kind"]},
                            "%s: a tree whose class names its own leaf class "
                            "(_bucket_type = %s) has nodes of class %s" % (
                                who, type(c)._bucket_type.__name__, bad))
    common.structural(c, dom, dict(cfg, impl=impl), None, None,
                      check_sizes=False, who=who)


# -- phase 1 ---------------------------------------------------------------

def _deploy(plan, dom, cfg, mode, ctx):
    """-> list of (records dict, listing) after every commit"""
    from ..world import SimStorage, SimConnection
    kind = cfg["kind"]
    mapping = is_mapping(kind)
    st = SimStorage(cfg.get("protocol", 3))
    impl = "py" if mode == "py" else "c"
    conn = SimConnection(st, impl)
    c = dom.new(kind, impl)
    oid = conn.add(c)
    conn.commit()
    snaps = []
    ntxn = 0
    for op in plan["ops"]:
        name = op[0]
        if name == "codec":
            continue
        if name == "commit":
            conn.commit()
            if conn.hazards:
                ctx.probe("abandoned:known-C04-inline-duplicate")
                raise Precondition("known C04 finding: inline-duplicate")
            recs = {o: r[-1][1] for o, r in st.revs.items()}
            snaps.append((recs, ops.listing(c, mapping)))
            ntxn += 1
            if mode == "mixed":
                impl = _other(impl)
                ctx.fault("impl-switch")
            conn = SimConnection(st, impl)     # fresh cache every transaction
            c = conn.get(oid)
            continue
        ops.apply(c, op, dom, impl, kind)
    return snaps, st, oid


def _memo_only(a, b, proto):
    try:
        return pickle.dumps(pickle.loads(a), proto) == \
            pickle.dumps(pickle.loads(b), proto)
    except Exception:
        return False


def _unshare(x):
    """deep copy in which no two str/bytes/frozenset leaves are the same
    object"""
    if isinstance(x, frozenset):
        return frozenset(list(x))
    if isinstance(x, tuple):
        return tuple(_unshare(y) for y in x)
    if isinstance(x, list):
        return [_unshare(y) for y in x]
    if isinstance(x, bytes):
        return bytes(bytearray(x))
    if isinstance(x, str):
        return x.encode("utf-8", "surrogatepass").decode(
            "utf-8", "surrogatepass") if x else x
    return x


def _record_memo_only(a, b):
    """the two records hold equal states and differ only in which equal
    leaves are one shared object (pickle memo references)"""
    def load(data):
        u = pickle.Unpickler(io.BytesIO(data))
        u.persistent_load = lambda ref: ("ref", ref[0], ref[1])
        return u.load(), u.load()
    try:
        return pickle.dumps(_unshare(load(a)), 2) == \
            pickle.dumps(_unshare(load(b)), 2)
    except Exception:
        return False


def _phase1(plan, dom, cfg, ctx):
    from ..world import SimConnection
    kind = cfg["kind"]
    mapping = is_mapping(kind)
    famc = common.fam_class(dom.fam)
    res = {}
    for mode in ("c", "py", "mixed"):
        try:
            res[mode] = _deploy(plan, dom, cfg, mode, ctx)
        except (Violation, Precondition):
            raise
        except Exception as e:
            raise Violation({"oracle": "deploy-exception", "kind": kind,
                             "fam": famc, "who": mode,
                             "exc": type(e).__name__},
                            "the %s deployment failed while running the "
                            "history: %r" % (mode, e))
    sc, sp, sm = res["c"][0], res["py"][0], res["mixed"][0]
    for i, (a, b, m) in enumerate(zip(sc, sp, sm)):
        for other, who in ((b, "py"), (m, "mixed")):
            if not ops.same_value(a[1], other[1]):
                raise Violation(
                    {"oracle": "deploy-contents", "kind": kind, "fam": famc,
                     "who": who},
                    "after commit %d the %s deployment lists %r, the C "
                    "deployment %r" % (i, who, other[1][:30], a[1][:30]))
            if set(a[0]) != set(other[0]):
                raise Violation(
                    {"oracle": "bytes-differ", "kind": kind, "fam": famc,
                     "who": who, "what": "oid-set"},
                    "after commit %d: the %s deployment holds %d records, "
                    "the C deployment %d" % (i, who, len(other[0]),
                                             len(a[0])))
            for oid in sorted(a[0]):
                if a[0][oid] != other[0][oid]:
                    what = "memo-only" if _record_memo_only(
                        a[0][oid], other[0][oid]) else "record"
                    raise Violation(
                        {"oracle": "bytes-differ", "kind": kind, "fam": famc,
                         "who": who, "what": what},
                        "after commit %d record %r differs:\n C   %r\n %s %r"
                        % (i, oid, a[0][oid][:300], who,
                           other[0][oid][:300]))
        ctx.ev("commit-compared", i, len(a[0]))
    # the mixed deployment's final tree, read by both implementations
    snaps, st, oid = res["mixed"]
    for rimpl in ("c", "py"):
        r = SimConnection(st, rimpl)
        t = r.get(oid)
        try:
            got = ops.listing(t, mapping)
        except Exception as e:
            raise Violation({"oracle": "mixed-read", "kind": kind,
                             "fam": famc, "reader": rimpl,
                             "what": type(e).__name__},
                            "reading the mixed deployment failed: %r" % (e,))
        if snaps and not ops.same_value(got, sc[-1][1]):
            raise Violation({"oracle": "mixed-read", "kind": kind,
                             "fam": famc, "reader": rimpl,
                             "what": "contents"},
                            "%s reader lists %r, expected %r" % (
                                rimpl, got[:30], sc[-1][1][:30]))
        try:
            _sound(t, dom, cfg, rimpl, "mixed/" + rimpl)
        except Violation as v:
            raise Violation({"oracle": "mixed-read", "kind": kind,
                             "fam": famc, "reader": rimpl, "what": "unsound",
                             "by": v.sig.get("oracle")}, v.detail)
        ctx.nontriv((famc, kind, "stored", rimpl, _form(t, kind)))


# -- phase 2 ---------------------------------------------------------------

def _reconstruct(src, route, target, proto):
    simpl = _impl_of(src)
    if route == "state-same":
        return convert(src, simpl), simpl
    if route == "state-other":
        return convert(src, target), target
    if type(src).__module__ == "sim.subcls" and route in ("pickle",
                                                          "pickle-other"):
        # user subclasses pickle under their own names
        data = pickle.dumps(src, proto)
        if route == "pickle":
            target = simpl
        return _SubUnpickler(io.BytesIO(data), target).load(), target
    if route == "pickle":
        return pickle.loads(pickle.dumps(src, proto)), "c"
    if route == "pickle-other":
        data = pickle.dumps(src, proto)
        if target == "py":
            return _PyUnpickler(io.BytesIO(data)).load(), "py"
        return pickle.loads(data), "c"
    # copy goes through __reduce__, which names the canonical (C) classes:
    # a copy of a Python container is a C container when the extension is
    # available -- accepted, whichever it is
    if route == "copy":
        new = copy.copy(src)
        return new, _impl_of(new)
    if route == "deepcopy":
        new = copy.deepcopy(src)
        return new, _impl_of(new)
    raise ValueError(route)


def _phase2(plan, dom, cfg, ctx):
    kind = cfg["kind"]
    mapping = is_mapping(kind)
    famc = common.fam_class(dom.fam)
    reps = {"c": dom.new(kind, "c"), "py": dom.new(kind, "py")}
    pre = plan.get("pre", 0)
    asym = False    # a replica was rebuilt by a route that changes which
                    # equal key/value objects are one shared object
    snap = None     # {impl: ([(node, state)], listing)} taken at a commit mark
    for idx, op in enumerate(plan["ops"]):
        name = op[0]
        if name == "commit":
            snap = {i: (_snapshot(reps[i]), ops.listing(reps[i], mapping))
                    for i in reps}
            continue
        if name == "codec" and op[1] == "restore":
            # __setstate__ on *live* objects: every node is given back the
            # state it had at the last commit mark
            if snap is None:
                continue
            for impl in ("c", "py"):
                nodes, want = snap[impl]
                base = {"oracle": "roundtrip", "route": "restore",
                        "kind": kind, "fam": famc, "src": impl, "dst": impl}
                if any(_inline_nonroot_state(o, st, reps[impl])
                       for o, st in nodes):
                    base["hazard"] = "inline-nonroot"
                try:
                    for obj, st in nodes:
                        obj.__setstate__(st)
                    got = ops.listing(reps[impl], mapping)
                except Exception as e:
                    raise Violation(dict(base, what="exception",
                                         exc=type(e).__name__),
                                    "restoring the states of the live nodes "
                                    "raised %r" % (e,))
                if not ops.same_value(got, want):
                    raise Violation(dict(base, what="contents"),
                                    "%s: after restoring every node's "
                                    "earlier state the container lists %r, "
                                    "expected %r" % (impl, got[:30],
                                                     want[:30]))
                try:
                    _sound(reps[impl], dom, cfg, impl, "restore")
                except Violation as v:
                    raise Violation(dict(base, what="unsound",
                                         by=v.sig.get("oracle")), v.detail)
                ctx.nontriv((famc, kind, "restore", impl,
                             _form(reps[impl], kind)))
            ctx.ev("codec", "restore")
            continue
        if name == "codec":
            snap = None         # a replica object is about to be replaced
            route, target, proto = op[1], op[2], op[3]
            # source: the replica of the implementation other than `target`
            # for the cross routes, else the target replica itself
            simpl = _other(target) if route in ("state-other",
                                                "pickle-other") else target
            src = reps[simpl]
            base = {"oracle": "roundtrip", "route": route, "kind": kind,
                    "fam": famc, "src": simpl}
            form = _form(src, kind)
            want = ops.listing(src, mapping)
            if _inline_nonroot(src, kind):
                base["hazard"] = "inline-nonroot"
                ctx.probe("codec-on-inline-nonroot-shape")
            try:
                new, nimpl = _reconstruct(src, route, target, proto)
            except Exception as e:
                raise Violation(dict(base, what="exception",
                                     exc=type(e).__name__),
                                "%s of a %s container (%s) raised %r" % (
                                    route, simpl, form, e))
            base["dst"] = nimpl
            if _impl_of(new) != nimpl:
                raise Violation(dict(base, what="class"),
                                "reconstruction is a %s" % type(new).__name__)
            try:
                got = ops.listing(new, mapping)
            except Exception as e:
                raise Violation(dict(base, what="listing-raised",
                                     exc=type(e).__name__),
                                "listing the reconstruction raised %r" % (e,))
            if not ops.same_value(got, want):
                raise Violation(dict(base, what="contents"),
                                "%s (%s->%s, %s): reconstruction lists %r, "
                                "source %r" % (route, simpl, nimpl, form,
                                               got[:30], want[:30]))
            if len(new) != len(want):
                raise Violation(dict(base, what="len"), "len differs")
            try:
                _sound(new, dom, cfg, nimpl, route)
            except Violation as v:
                raise Violation(dict(base, what="unsound",
                                     by=v.sig.get("oracle")), v.detail)
            if not ops.same_value(ops.listing(src, mapping), want):
                raise Violation(dict(base, what="source-changed"),
                                "the source changed")
            # the reconstruction replaces the replica of its implementation:
            # the rest of the history runs on it
            reps[nimpl] = new
            if route not in ("state-same", "copy") or simpl != nimpl:
                asym = True
            ctx.ev("codec", route, simpl, nimpl, form)
            ctx.nontriv((famc, kind, route, simpl, nimpl, form))
            ctx.interleaving((route, simpl, nimpl, form))
            continue
        outs = {}
        for impl in ("c", "py"):
            outs[impl] = ops.apply(reps[impl], op, dom, impl, kind)
        if idx < pre:
            continue
        la = ops.listing(reps["c"], mapping)
        lb = ops.listing(reps["py"], mapping)
        ctx.ev(name, outs["c"][0])
        if not ops.same_value(la, lb) or outs["c"][0] != outs["py"][0]:
            raise Violation(
                {"oracle": "replicas-diverge", "kind": kind, "fam": famc,
                 "op": name},
                "after %r (reconstructed replicas in use): C %r lists %r; "
                "Python %r lists %r" % (op, outs["c"], la[:30], outs["py"],
                                        lb[:30]))
    for impl in ("c", "py"):
        _sound(reps[impl], dom, cfg, impl, "final/" + impl)
    if cfg["dom"].get("sub"):
        # user subclasses pickle under their own names (..Py for the Python
        # ones): the states must be equal with the class names mapped
        from .twin import _skeleton, strict_same
        sa, sb = _skeleton(reps["c"]), _skeleton(reps["py"])
        if not strict_same(sa, sb):
            raise Violation(
                {"oracle": "bytes-differ", "kind": kind, "fam": famc,
                 "who": "transient", "what": "state", "sub": True},
                "states of the replicas differ:\n C  %r\n Py %r" % (sa, sb))
        for proto in range(6):
            for impl in ("c", "py"):
                pickle.dumps(reps[impl], proto)
        ctx.ev("states-equal")
        return
    for proto in range(6):
        pa = pickle.dumps(reps["c"], proto)
        pb = pickle.dumps(reps["py"], proto)
        if pa != pb:
            from .twin import _skeleton
            same = pickle.dumps(_unshare(_skeleton(reps["c"])), 2) == \
                pickle.dumps(_unshare(_skeleton(reps["py"])), 2)
            what = "memo-only" if same else "bytes"
            if same and asym:
                # object sharing legitimately differs: one replica has been
                # through a pickle / deepcopy / cross-implementation rebuild
                ctx.probe("memo-only-after-roundtrip")
                continue
            raise Violation(
                {"oracle": "bytes-differ", "kind": kind, "fam": famc,
                 "who": "transient", "what": what, "proto": proto},
                "protocol %d pickles of the replicas differ:\n C  %r\n Py %r"
                % (proto, pa[:300], pb[:300]))
    ctx.ev("pickles-equal")


def execute(plan, ctx):
    from .. import env
    cfg = plan["cfg"]
    env.activate(ctx.variant)
    dom = Domain(cfg["dom"])
    dom.set_node_sizes(cfg.get("leaf"), cfg.get("internal"))
    _phase2(plan, dom, cfg, ctx)
    _phase1(plan, dom, cfg, ctx)

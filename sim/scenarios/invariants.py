"""C03 -- a container used only through its API is never internally damaged.

An invariant monitor attached to fault-free histories on BTree / TreeSet:
after *every* public operation  t._check(),  BTrees.check.check(t)  and the
independent walker (sim/walker.py) must accept the tree, the walker's chain
contents must equal the reference model's, and the node-size limits must
hold.  Histories are generated in phases (grow / delete runs of adjacent keys
/ refill / clear / update from another container) so that root splits,
interior splits and unlinking of first / middle / last leaves across subtrees
all happen; the transition classes actually reached are reported as probes.
"""
import copy

from .. import ops, walker
from ..core import Violation
from ..domains import Domain, is_mapping
from . import common

PROP = "C03"
SHRINK = [["ops"]]
BUDGET = {"quick": {"plain": 30000, "max_s": 100},
          "thorough": {"plain": 600000, "max_s": 1500}}
RULE = ("one run = one seeded, phase-biased history (30-90 calls quick, up "
        "to 400 thorough) on one BTree/TreeSet configuration (family x impl "
        "x node sizes on the class or on a subclass x transient/stored); "
        "after every call _check(), check.check(), the independent walker "
        "and the size limits are evaluated; distinct non-trivial = distinct "
        "(impl, kind, shape signature, transition class) pairs on which the "
        "monitor ran right after a structural transition")
TECHNIQUE = ("invariant monitor (package checkers + independent structural "
             "walker + size limits) evaluated after every step of seeded "
             "histories; fault-free configuration of the simulator")
LEVEL_TEXT = ("Seeded phase-biased histories over all 22 families x "
              "{BTree,TreeSet} x 2 implementations x small/default node "
              "sizes (class-level or subclass) x transient/stored; after "
              "every call the package's _check() and check.check() and an "
              "independent walker (chain == descent, no empty node, uniform "
              "child kinds, keys within inherited separator bounds, "
              "firstbucket of every node, size limits) must accept and the "
              "walked contents must equal the reference model. Sampling.")


def plan(rng, tier):
    cfg = common.draw_cfg(rng, kinds=("BTree", "TreeSet"), p_stored=0.25,
                          p_default_sizes=0.04)
    cfg["dom"]["nk"] = rng.choice([12, 16, 24, 32, 48, 64])
    cfg["subclass"] = (not cfg["stored"]) and cfg["leaf"] is not None and \
        rng.random() < 0.15
    pre = 0
    huge = False
    if cfg["leaf"] is None:
        cfg["dom"]["nk"] = rng.choice([400, 900, 1500])
        cfg["dom"]["ext"] = False
        pre = int(cfg["dom"]["nk"] * rng.choice([0.5, 0.8, 1.0]))
        if cfg["dom"]["fam"][0] == "O" and rng.random() < (
                0.05 if tier == "quick" else 0.15):
            # LARGE: interior nodes split at their DEFAULT fan-out (object
            # keys: leaves of 30 / 60, 250 children -- the root splits at
            # 500 children, i.e. after ~7500 sequential keys)
            huge = True
            cfg["dom"]["nk"] = rng.choice([8500, 10000, 12000])
            if cfg["dom"]["fam"] != "OO" or cfg["kind"] == "TreeSet":
                # (leaves of 60: twice as many keys for the same fan-out)
                cfg["dom"]["nk"] *= 2
            cfg["dom"]["kflavor"] = rng.choice(["int", "str"])
            cfg["dom"].pop("none", None)
            pre = cfg["dom"]["nk"] - rng.randrange(300)
    dom = Domain(cfg["dom"])
    g = common.Gen(rng, dom, cfg["kind"])
    g.p_bad = 0.05
    hist = []
    if pre and huge and rng.random() < 0.6:
        # ascending: every leaf is filled and split in turn
        for k in range(pre):
            op = ["set", k, g.val()] if g.mapping else ["add", k]
            g.model.apply(op)
            hist.append(op)
    elif pre:
        hist.extend(g.fill(pre))
    n = rng.randint(30, 90) if tier == "quick" else rng.choice(
        [40, 80, 150, 250, 400])
    if huge:
        n = rng.randint(8, 20)
    style = rng.random()
    if style < 0.35 and not pre:
        # grow to (almost) full, then phases
        hist.extend(g.fill(rng.randint(dom.nkeys // 2, dom.nkeys)))
    hist.extend(g.history(n))
    if cfg["stored"]:
        out = []
        npre = pre
        for j, op in enumerate(hist):
            if j == npre and npre:
                pre = len(out)      # (index of the first call after the
                #                      preload in the final list)
            out.append(op)
            if j < npre and huge:
                continue            # (no commits inside a large preload)
            if rng.random() < 0.1:
                out.append(["commit"])
                if rng.random() < 0.6:
                    # the next call starts on (partly) evicted nodes
                    out.append(["sweep", rng.choice(["minimize", "some"]),
                                rng.randrange(1 << 16)])
        hist = out
    return {"cfg": cfg, "ops": hist, "pre": pre}


def simplify(plan):
    cfg = plan["cfg"]
    if cfg["stored"]:
        p = copy.deepcopy(plan)
        p["cfg"]["stored"] = False
        p["ops"] = [o for o in p["ops"] if o[0] not in ("commit", "sweep")]
        yield p
    if cfg.get("subclass"):
        p = copy.deepcopy(plan)
        p["cfg"]["subclass"] = False
        yield p


def _single_child_interior(shape, top=True):
    if not isinstance(shape, tuple):
        return False
    if not top and len(shape) == 1 and isinstance(shape[0], tuple):
        return True
    return any(_single_child_interior(s, False) for s in shape)


def execute(plan, ctx):
    cfg = plan["cfg"]
    dom, c, conn = common.setup(cfg, ctx.variant)
    impl, kind = cfg["impl"], cfg["kind"]
    mapping = is_mapping(kind)
    sub = cfg.get("subclass")
    if sub:
        base = dom.cls(kind, impl)
        leaf, internal = cfg["leaf"], cfg["internal"]
        # the class keeps the family defaults; the subclass carries the sizes
        dl, di = common.domains.default_sizes(cfg["dom"]["fam"])
        base.max_leaf_size, base.max_internal_size = dl, di

        class Sub(base):
            max_leaf_size = leaf
            max_internal_size = internal
        c = Sub()
    model = ops.Model(dom, kind)
    pre = plan.get("pre", 0)
    prev = None
    for idx, op in enumerate(plan["ops"]):
        name = op[0]
        if name == "commit":
            if conn is not None:
                common.commit(conn, ctx)
                ctx.ev("commit")
            continue
        if name == "sweep":
            if conn is not None:
                ctx.ev("sweep", common.sweep(conn, op, ctx))
            continue
        model.apply(op)
        got = ops.apply(c, op, dom, impl, kind)
        ctx.ev(name, got[0], got[1] if got[0] == "exc" else None)
        if idx < pre - 1:
            continue            # bulk preload of default-size trees
        w = common.structural(c, dom, cfg, None, model.listing(),
                              use_check_module=not sub, who=name)
        ctx.shape(w.shape)
        for t in walker.transitions(prev, w):
            ctx.probe(t)
            ctx.nontriv((impl, kind, w.shape, t))
            ctx.interleaving((name, t))
        if _single_child_interior(w.shape):
            ctx.probe("single-child-interior")
        ctx.probe("height-%d" % min(w.height, 6))
        prev = w

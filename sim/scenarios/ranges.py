"""C02 -- range searches and lazy key/value/item sequences are exact.

Fault-free configuration of the simulator.  A seeded history first *builds* a
shape (dense, thinned by deleting runs of keys so that leaves hold one key,
separators are stale, the root has a single child ...); its contents are
re-validated against the reference model (a mismatch is C01's business: the
run is abandoned as "precondition failed").  Then 30-150 query operations are
evaluated against list comprehensions over the model:

  keys/values/items/iterkeys/itervalues/iteritems(min, max, excludemin,
  excludemax) in positional and keyword form, each bound omitted / None / a
  present key / a key in a gap / below or above everything;
  minKey(b) / maxKey(b);
  for one lazy sequence object: len, bool, every kind of index, step-1 slices
  (also of slices), repeated indexing in any order (the search finger),
  iteration after indexing.
"""
import copy

from .. import ops, walker
from ..core import Violation, Precondition
from ..domains import Domain, is_mapping, is_tree
from . import common

PROP = "C02"
SHRINK = [["build"], ["queries"], ["queries", "*", 7]]
BUDGET = {"quick": {"plain": 30000, "max_s": 100},
          "thorough": {"plain": 800000, "max_s": 1500}}
RULE = ("one run = one seeded shape-building history plus 30-150 range / "
        "minKey / maxKey / lazy-sequence queries on one container "
        "configuration; every query result is compared with a list "
        "comprehension over the reference model; distinct non-trivial = "
        "distinct (impl, tree-or-leaf, shape signature, query kind, bound "
        "classes, flags) tuples evaluated on a container with >= 2 keys")
TECHNIQUE = ("query results compared with list comprehensions over a "
             "reference model on shapes built by seeded insert/delete "
             "histories (fault-free configuration of the simulator)")
LEVEL_TEXT = ("Seeded shapes (dense, thinned, emptied-and-refilled; small "
              "and default node sizes; all families, 4 kinds, both "
              "implementations, transient and stored) x seeded queries: "
              "range methods with every bound class and flag combination in "
              "positional and keyword form, minKey/maxKey with bounds, and "
              "len/index/negative index (also far beyond a C int)/slice/"
              "iteration probes on lazy "
              "sequences, each compared with the list the reference model "
              "implies. Sampling.")

MAP_METHS = ["keys", "values", "items", "iterkeys", "itervalues", "iteritems"]
SET_METHS = ["keys"]      # the C Set/TreeSet have no iterkeys()


def _bound(rng, g, allow_special=True):
    r = rng.random()
    if allow_special and r < 0.22:
        return "omit"
    if allow_special and r < 0.32:
        return "none"
    d = g.model.d
    nk = g.dom.nkeys
    r = rng.random()
    if d and r < 0.35:
        return rng.choice(sorted(d))
    if d and r < 0.75:
        # a key right next to a present key (often a gap at a leaf edge)
        k = rng.choice(sorted(d)) + rng.choice([-1, 1, 1])
        return min(max(k, 0), nk - 1)
    return rng.randrange(nk)


def _flags(rng):
    r = rng.random()
    if r < 0.4:
        return 0, 0
    if r < 0.6:
        return 1, 0
    if r < 0.8:
        return 0, 1
    return 1, 1


def _range_op(rng, g, meths):
    exmin, exmax = _flags(rng)
    return ["range", rng.choice(meths), _bound(rng, g), _bound(rng, g),
            exmin, exmax, rng.choice(["pos", "kw"])]


FAR = [2 ** 31, -2 ** 31 - 1, 2 ** 32, -2 ** 32, 2 ** 32 + 1, 2 ** 33,
       -2 ** 33, 2 ** 63 - 1, -2 ** 63, 2 ** 64, -2 ** 64]


def _probes(rng, n_items):
    out = []
    n = n_items
    for _ in range(rng.randint(1, 8)):
        r = rng.random()
        if r < 0.12:
            out.append(["len"])
        elif r < 0.18:
            out.append(["bool"])
        elif r < 0.55:
            i = rng.randint(-n - 2, n + 1)
            if rng.random() < 0.06:
                # far outside: an index that does not fit a C int / a
                # Py_ssize_t must still be an IndexError, not be cut down
                i = rng.choice(FAR) + rng.choice([0, 0, i])
            out.append(["idx", i])
        elif r < 0.8:
            a = rng.choice([None, rng.randint(-n - 2, n + 2)])
            b = rng.choice([None, rng.randint(-n - 2, n + 2)])
            if rng.random() < 0.05:
                a = rng.choice([a, rng.choice(FAR)])
                b = rng.choice([b, rng.choice(FAR)]) if a is None or \
                    abs(a) < 2 ** 31 else b
            sub = None
            if rng.random() < 0.3:
                sub = ["idx", rng.randint(-3, 3)] if rng.random() < 0.5 else \
                    ["slice", rng.choice([None, 0, 1, -1]),
                     rng.choice([None, 1, 2, -1])]
            out.append(["slice", a, b, sub])
        elif r < 0.9:
            out.append(["list"])
        else:
            out.append(["iter", rng.randint(0, 4)])
    return out


def plan(rng, tier):
    cfg = common.draw_cfg(rng, p_stored=0.3, p_default_sizes=0.06,
                          p_sub=0.06)
    cfg["dom"]["nk"] = rng.choice([8, 12, 16, 24, 32, 48])
    pre = 0
    if cfg["leaf"] is None and is_tree(cfg["kind"]):
        cfg["dom"]["nk"] = rng.choice([300, 700])
        cfg["dom"]["ext"] = False
        pre = cfg["dom"]["nk"]
    dom = Domain(cfg["dom"])
    g = common.Gen(rng, dom, cfg["kind"])
    mapping = is_mapping(cfg["kind"])
    build = []
    style = rng.random()
    if pre:
        build.extend(g.fill(pre))
        style = 0.5
    if style < 0.25:
        build.extend(g.fill(rng.randint(0, dom.nkeys)))
    elif style < 0.8:
        # dense then thinned by deleting runs of adjacent keys
        build.extend(g.fill(rng.randint(dom.nkeys // 2, dom.nkeys)))
        for _ in range(rng.randint(1, 6)):
            ks = g.model.skeys()
            if not ks:
                break
            a = rng.randrange(len(ks))
            ln = rng.randint(1, max(1, len(ks) // 2))
            for k in ks[a:a + ln]:
                if rng.random() < 0.9:
                    op = ["del" if mapping else "remove", k]
                    g.model.apply(op)
                    build.append(op)
    else:
        build.extend(g.history(rng.randint(20, 120)))
    if rng.random() < 0.1:
        build.append(["clear"])
        g.model.apply(["clear"])
        build.extend(g.fill(rng.randint(0, dom.nkeys // 2)))
    meths = MAP_METHS if mapping else SET_METHS
    nq = rng.randint(30, 70) if tier == "quick" else rng.randint(60, 150)
    if pre:
        nq = min(nq, 40)
    queries = []
    for _ in range(nq):
        r = rng.random()
        if r < 0.5:
            queries.append(_range_op(rng, g, meths))
        elif r < 0.6:
            queries.append(["minKey", _bound(rng, g)])
        elif r < 0.7:
            queries.append(["maxKey", _bound(rng, g)])
        else:
            q = _range_op(rng, g, meths)
            q[0] = "seq"
            if q[1].startswith("iter"):
                q[1] = q[1][4:]
            q.append(_probes(rng, len(g.model.d)))
            queries.append(q)
    commit = cfg["stored"] and rng.random() < 0.85
    if commit:
        # evict-between fault: the queried shape includes ghost nodes
        out = []
        for q in queries:
            if rng.random() < 0.25:
                out.append(["sweep", rng.choice(["minimize", "minimize",
                                                 "incrgc", "some"]),
                            rng.randrange(1 << 16)])
            out.append(q)
        queries = out
    return {"cfg": cfg, "build": build, "queries": queries,
            "commit": commit}


def simplify(plan):
    cfg = plan["cfg"]
    if cfg["stored"]:
        p = copy.deepcopy(plan)
        p["cfg"]["stored"] = False
        p["commit"] = False
        yield p
    for i, q in enumerate(plan["queries"]):
        if q[0] in ("range", "seq") and len(q) > 6 and q[6] == "pos":
            p = copy.deepcopy(plan)
            p["queries"][i][6] = "kw"
            yield p


def bclass(b, model):
    if b in ("omit", "none"):
        return b
    d = model.d
    if not d:
        return "any"
    if b in d:
        return "present"
    if b < min(d):
        return "below"
    if b > max(d):
        return "above"
    return "gap"


def _expected_probe(lst, pr):
    """-> ("ok", value) / ("exc", name) for a probe on python list lst"""
    kind = pr[0]
    if kind == "len":
        return ("ok", len(lst))
    if kind == "bool":
        return ("ok", bool(lst))
    if kind == "idx":
        i = pr[1]
        if -len(lst) <= i < len(lst):
            return ("ok", lst[i])
        return ("exc", "IndexError")
    if kind == "slice":
        sub = lst[pr[1]:pr[2]]
        if len(pr) > 3 and pr[3]:
            return _expected_probe(sub, pr[3])
        return ("ok", sub)
    if kind == "list":
        return ("ok", list(lst))
    if kind == "iter":
        return ("ok", lst[:pr[1]])
    raise ValueError(kind)


def _run_probe(seq, pr):
    kind = pr[0]
    try:
        if kind == "len":
            return ("ok", len(seq))
        if kind == "bool":
            return ("ok", bool(seq))
        if kind == "idx":
            return ("ok", seq[pr[1]])
        if kind == "slice":
            sub = seq[pr[1]:pr[2]]
            if len(pr) > 3 and pr[3]:
                return _run_probe(sub, pr[3])
            return ("ok", list(sub))
        if kind == "list":
            return ("ok", list(seq))
        if kind == "iter":
            out = []
            it = iter(seq)
            for _ in range(pr[1]):
                try:
                    out.append(next(it))
                except StopIteration:
                    break
            return ("ok", out)
    except Exception as e:
        return ops.norm_exc(e)
    raise ValueError(kind)


def execute(plan, ctx):
    cfg = plan["cfg"]
    dom, c, conn = common.setup(cfg, ctx.variant)
    impl, kind = cfg["impl"], cfg["kind"]
    mapping = is_mapping(kind)
    model = ops.Model(dom, kind)
    for op in plan["build"]:
        model.apply(op)
        ops.apply(c, op, dom, impl, kind)
    if conn is not None and plan.get("commit"):
        common.commit(conn, ctx)
    if not ops.same_value(ops.listing(c, mapping), model.listing()):
        raise Precondition("built contents differ from the model")
    shape = None
    if is_tree(kind):
        w = walker.walk(c, dom, mapping)
        shape = w.shape
        ctx.shape(shape)
        leaflens = [len(b.keys()) if not mapping else len(b)
                    for b in w.leaves]
        if 1 in leaflens:
            ctx.probe("one-key-leaf")
        if isinstance(shape, tuple) and len(shape) == 1 and \
                isinstance(shape[0], tuple):
            ctx.probe("root-single-child")
    tl = "tree" if is_tree(kind) else "leaf"
    nkeys = len(model.d)
    for q0 in plan["queries"]:
        name = q0[0]
        if name == "sweep":
            if conn is not None and plan.get("commit"):
                if q0[1] == "some":
                    nodes = conn.nodes()
                    pick = set(o._p_oid for j, o in enumerate(nodes)
                               if (q0[2] >> (j % 16)) & 1)
                    n = conn.sweep("deactivate", pick)
                elif q0[1] == "incrgc":
                    n = conn.sweep("incrgc", 1 + q0[2] % 4)
                else:
                    n = conn.sweep("minimize")
                if n:
                    ctx.fault("evict-between", n)
                ctx.ev("sweep", q0[1], n)
            continue
        q = _none_keys(q0, dom)
        if name in ("minKey", "maxKey"):
            want = model.apply(q if q[1] not in ("omit",) else [name])
            if q[1] == "omit":
                got = ops.apply(c, [name], dom, impl, kind)
            elif q[1] == "none":
                try:
                    got = ("ok", getattr(c, name)(None))
                except Exception as e:
                    got = ops.norm_exc(e)
            else:
                got = ops.apply(c, q, dom, impl, kind)
            cls = (name, bclass(q[1], model))
            ctx.ev(name, got[0], got[1] if got[0] == "exc" else None)
            if not ops.same_outcome(got, want):
                raise Violation(
                    {"oracle": "minmax", "op": name, "impl": impl, "on": tl,
                     "bound": bclass(q[1], model), "empty": not model.d,
                     "got": got[1] if got[0] == "exc" else "value",
                     "want": want[1] if want[0] == "exc" else "value"},
                    "%s(%r) -> %r, model says %r; contents %r" % (
                        name, q[1] if isinstance(q[1], str)
                        else dom.key(q[1]), got, want,
                        model.keys_real()[:40]))
        elif name == "range":
            want = model.apply(q)
            got = ops.apply(c, q, dom, impl, kind)
            cls = ("range", bclass(q[2], model), bclass(q[3], model),
                   q[4], q[5])
            ctx.ev(name, q[1], got[0], len(got[1]) if got[0] == "ok"
                   else got[1])
            if not ops.same_outcome(got, want):
                raise Violation(
                    {"oracle": "range-result", "impl": impl, "on": tl,
                     "min": bclass(q[2], model), "max": bclass(q[3], model),
                     "exmin": q[4], "exmax": q[5],
                     "got": got[1] if got[0] == "exc" else "value"},
                    "%r -> %r, model says %r; contents %r" % (
                        _show(q, dom), got, want, model.keys_real()[:40]))
        else:   # seq
            base = model.range(q)
            try:
                seq = ops.call_range(c, q, dom)
            except Exception as e:
                raise Violation(
                    {"oracle": "seq-create", "impl": impl, "on": tl,
                     "got": type(e).__name__},
                    "%r raised %r" % (_show(q, dom), e))
            cls = ("seq", bclass(q[2], model), bclass(q[3], model),
                   q[4], q[5])
            for pr in q[7]:
                want = _expected_probe(base, pr)
                got = _run_probe(seq, pr)
                ctx.ev("probe", pr[0], got[0])
                if not ops.same_outcome(got, want):
                    raise Violation(
                        {"oracle": "seq-probe", "impl": impl, "on": tl,
                         "probe": pr[0],
                         "got": got[1] if got[0] == "exc" else "value",
                         "want": want[1] if want[0] == "exc" else "value"},
                        "%r probe %r -> %r, expected %r; contents %r" % (
                            _show(q, dom), pr, got, want,
                            model.keys_real()[:40]))
                ctx.interleaving((tl, impl, pr[0], got[0]))
        if nkeys >= 2:
            ctx.nontriv((impl, tl, shape if shape is not None else nkeys,
                         cls))
    # C reach probes (branch counters inside the extension)
    if impl == "c":
        _c_probes(ctx, dom)


_PROBE_NAMES = {0: "findRangeEnd-move-right", 1: "findRangeEnd-left-tree",
                2: "findRangeEnd-left-bucket", 3: "range-next-bucket",
                4: "range-prev-bucket", 5: "range-hard-compare",
                7: "seek-leftward"}
_last_probes = {}


def _c_probes(ctx, dom):
    import sys
    m = sys.modules.get("BTrees._%sBTree" % dom.fam)
    if m is None:
        return
    cur = m._verif_probes()
    last = _last_probes.get(dom.fam)
    _last_probes[dom.fam] = cur
    if last is None:
        last = (0,) * len(cur)
    for i, name in _PROBE_NAMES.items():
        d = cur[i] - last[i]
        if d:
            ctx.probe("c:" + name, d)


def _none_keys(q, dom):
    """a bound whose real key is None means "unbounded" to the API: give the
    model the same reading"""
    def f(b):
        if isinstance(b, int) and not isinstance(b, bool) and \
                dom.key(b) is None:
            return "none"
        return b
    q = list(q)
    if q[0] in ("minKey", "maxKey"):
        q[1] = f(q[1])
    else:
        q[2] = f(q[2])
        q[3] = f(q[3])
    return q


def _show(q, dom):
    def b(x):
        return x if isinstance(x, str) else dom.key(x)
    return (q[1], b(q[2]), b(q[3]), q[4], q[5], q[6])

"""C01 -- containers behave as a sorted map / set.

Fault-free configuration of the simulator: a seeded call history is applied
to one container (family x kind x implementation x node sizes x
transient/stored) and, op by op, to a reference sorted map.  After every call
the outcome (value or exception class) and the full ordered listing, len and
bool must agree.
"""
from .. import ops
from ..core import Violation
from ..domains import Domain, is_mapping
from . import common

PROP = "C01"
SHRINK = [["ops"]]
BUDGET = {"quick": {"plain": 40000, "max_s": 100},
          "thorough": {"plain": 1500000, "max_s": 1500}}
RULE = ("one run = one seeded history (20-80 calls quick, up to 400 "
        "thorough) on one container configuration (family x kind x impl x "
        "node sizes x transient/stored); after every call outcome and "
        "listing are compared with the reference map; distinct non-trivial "
        "= distinct (family, kind, impl, stored, shape signature at end of "
        "run, #distinct op kinds used) tuples")
TECHNIQUE = ("op-by-op refinement against a reference sorted map under a "
             "seeded history generator (fault-free configuration of the "
             "simulator)")
LEVEL_TEXT = ("Fault-free configuration of the simulator: seeded call "
              "histories over all 22 families x 4 kinds x 2 implementations "
              "x small and default node sizes x transient/stored, each call "
              "checked against a reference sorted map/set (result, exception "
              "class, full ordered contents, len, bool). Sampling: a clean "
              "batch is evidence, not proof.")


def plan(rng, tier):
    cfg = common.draw_cfg(rng, p_sub=0.08)
    pre = 0
    if cfg["leaf"] is None and cfg["kind"] in ("BTree", "TreeSet") and \
            rng.random() < 0.5:
        # default node sizes with enough keys for several leaves -- and,
        # rarely, for interior nodes that split at their default fan-out
        cfg["dom"]["ext"] = False
        cfg["dom"].pop("none", None)
        if cfg["dom"]["fam"] == "OO" and cfg["kind"] == "BTree" and \
                rng.random() < (0.1 if tier == "quick" else 0.3):
            cfg["dom"]["nk"] = rng.choice([8500, 10000])
            cfg["dom"]["kflavor"] = rng.choice(["int", "str"])
        else:
            cfg["dom"]["nk"] = rng.choice([300, 700, 1500])
        pre = cfg["dom"]["nk"] - rng.randrange(cfg["dom"]["nk"] // 10)
    dom = Domain(cfg["dom"])
    g = common.Gen(rng, dom, cfg["kind"])
    g.p_bad = 0.03
    g.p_byvalue = 0.015
    if cfg["dom"]["fam"][1] == "F" and rng.random() < 0.3:
        cfg["dom"]["vnan"] = True       # NaN among the values
        dom = Domain(cfg["dom"])
        g = common.Gen(rng, dom, cfg["kind"])
        g.p_bad = 0.03
        g.p_byvalue = 0.015
    n = rng.randint(20, 80) if tier == "quick" else rng.choice(
        [30, 60, 120, 250, 400])
    if cfg["leaf"] is None:
        n = max(n, 60)
    if pre > 5000:
        n = min(n, 40)
    hist = []
    if pre:
        if rng.random() < 0.5:
            for k in range(pre):        # ascending
                op = ["set", k, g.val()] if g.mapping else ["add", k]
                g.model.apply(op)
                hist.append(op)
        else:
            hist = g.fill(pre)
    npre = len(hist)
    hist += g.history(n)
    if cfg["stored"]:
        out = []
        for j, op in enumerate(hist):
            out.append(op)
            if j < npre - 1:
                continue
            if j == npre - 1:
                npre = len(out)
            if rng.random() < 0.2:
                out.append(["commit"])
                if rng.random() < 0.6:
                    # the next call starts on (partly) evicted nodes
                    out.append(["sweep", rng.choice(["minimize", "some"]),
                                rng.randrange(1 << 16)])
        hist = out
    return {"cfg": cfg, "ops": hist, "pre": npre}


def simplify(plan):
    cfg = plan["cfg"]
    if cfg["stored"]:
        p = _copy(plan)
        p["cfg"]["stored"] = False
        p["ops"] = [o for o in p["ops"] if o[0] not in ("commit", "sweep")]
        yield p
    if cfg["dom"].get("ext"):
        # cannot drop extremes without re-indexing keys; skip
        pass


def _copy(p):
    import copy
    return copy.deepcopy(p)


def check_listing(c, model, cfg, opname, ctx):
    mapping = is_mapping(cfg["kind"])
    want = model.listing()
    got = ops.listing(c, mapping)
    base = {"impl": cfg["impl"], "kind": cfg["kind"], "op": opname}
    if not ops.same_value(got, want):
        raise Violation(dict(base, oracle="listing"),
                        "after %s: listing %r, model %r" % (
                            opname, got[:30], want[:30]))
    n = len(c)
    if n != len(want):
        raise Violation(dict(base, oracle="len"),
                        "len %r, model %r" % (n, len(want)))
    if bool(c) != bool(want):
        raise Violation(dict(base, oracle="bool"), "bool disagrees")


def execute(plan, ctx):
    cfg = plan["cfg"]
    dom, c, conn = common.setup(cfg, ctx.variant)
    model = ops.Model(dom, cfg["kind"])
    impl, kind = cfg["impl"], cfg["kind"]
    used = set()
    ops.KEEP = kept = []
    try:
        _run(plan, ctx, cfg, dom, c, conn, model, impl, kind, used, kept)
    finally:
        ops.KEEP = None


def _check_kept(kept, op, impl, kind):
    """operands of earlier calls are what they were when they were made"""
    for obj, m, lst, form in kept:
        try:
            now = ops.listing(obj, m)
            ok = ops.same_value(now, lst)
            if ok and form in ("BTree", "TreeSet"):
                obj._check()
        except Exception as e:
            now, ok = repr(e), False
        if not ok:
            raise Violation(
                {"oracle": "operand-changed", "impl": impl, "kind": kind,
                 "form": form},
                "after %r an operand (%s) of an EARLIER call lists %r; it "
                "listed %r when it was handed over" % (op, form, now, lst))
    if len(kept) > 6:
        del kept[:len(kept) - 6]


def _run(plan, ctx, cfg, dom, c, conn, model, impl, kind, used, kept):
    pre = plan.get("pre", 0)
    for idx, op in enumerate(plan["ops"]):
        name = op[0]
        if name == "commit":
            if conn is not None:
                common.commit(conn, ctx)
                ctx.ev("commit")
            continue
        if name == "sweep":
            if conn is not None:
                ctx.ev("sweep", common.sweep(conn, op, ctx))
            continue
        want = model.apply(op)
        got = ops.apply(c, op, dom, impl, kind)
        if idx < pre - 1:
            continue        # bulk preload: compared when it is complete
        used.add(name)
        if name in ("update", "supdate") and got[0] == "ok":
            got = ("ok", None)
        ctx.ev(name, got[0], got[1] if got[0] == "exc" else None)
        if not ops.same_outcome(got, want):
            raise Violation(
                {"oracle": "result", "op": name, "impl": impl, "kind": kind,
                 "got": got[1] if got[0] == "exc" else "value",
                 "want": want[1] if want[0] == "exc" else "value"},
                "%r -> %r, model says %r" % (op, got, want))
        check_listing(c, model, cfg, name, ctx)
        if kept:
            _check_kept(kept, op, impl, kind)
    w = None
    if kind in ("BTree", "TreeSet"):
        from .. import walker
        w = walker.walk(c, dom, is_mapping(kind))
        ctx.shape(w.shape)
    ctx.nontriv((cfg["dom"]["fam"], kind, impl, cfg["stored"],
                 w.shape if w else len(model.d), len(used)))
    ctx.interleaving((kind, impl, tuple(sorted(used))))

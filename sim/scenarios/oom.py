"""C17 -- running out of memory inside an operation is reported, not
corrupting.

Needs the guarded hook in /repo (BTREES_VERIF): an allocation-failure
countdown consulted by BTree_Malloc / BTree_Realloc and by fault points at the
places where the extension allocates Python objects itself (new leaf / tree
nodes, result containers of set algebra and merges, state tuples, lazy
sequences and iterators, result lists and tuples), armed through
_XXBTree._verif_alloc_arm(n), observed through _verif_alloc_stats().
C implementation only; all families, all kinds.

A seeded history builds a shape; one allocating operation (insert into a
full / empty leaf, inserts that split a leaf, an interior node, the root,
insert into an empty tree, setdefault, update, the constructor, set algebra
and in-place operators, multiunion on both sides of the 800-element sort
switch, conflict merge, __setstate__ of leaves and trees) is executed once
on an identically rebuilt copy with the hook in counting mode (a
allocations), then on fresh copies with the fault `alloc-fail` at every
allocation n <= a (fault enumeration over the placement, capped at 64; the
histories and operations are sampled).

Oracle: if the countdown fired the call raises MemoryError; afterwards
_check(), check.check() and the walker accept the container, its listing is
the old or the completed one (bulk mutators: per key old-or-new), a follow-up
workload -- which grows the very leaf that failed -- matches the reference
model, the reference ledger holds (object keys/values), and the whole plan on
the ASan+UBSan build is silent (that is what detects "freed or unowned memory
is referenced afterwards").
"""
import copy
import gc
import sys

from .. import ops, walker, keys
from ..core import Violation, Precondition
from ..domains import Domain, is_mapping, is_tree, FAMILIES, _detach
from . import common, cmpfault

PROP = "C17"
SHRINK = [["build"], ["follow"]]
BUDGET = {"quick": {"plain": 6000, "asan": 4000, "max_s": 110},
          "thorough": {"plain": 200000, "asan": 150000, "max_s": 1500}}
RULE = ("one run = one seeded shape + one allocating operation, executed "
        "once to count its a allocations and then on fresh copies with the "
        "n-th allocation failing (quick: <=3 sampled n, thorough: all "
        "n<=a); distinct non-trivial = distinct (kind, family class, "
        "operation, n, a, tree height, contents outcome) tuples where the "
        "failure really fired")
TECHNIQUE = ("fault injection at the allocator seam (guarded hook: the n-th "
             "BTree_Malloc/BTree_Realloc or Python-object allocation made "
             "by the extension itself of one operation fails), "
             "enumerated over every n; MemoryError, "
             "soundness, old-or-new contents, follow-up workload and "
             "reference ledger oracles; sanitizer build")
LEVEL_TEXT = ("Seeded shapes (all families, 4 kinds, C implementation) x "
              "seeded allocating operation kinds x allocation index n "
              "(enumerated) through the "
              "guarded allocation-failure hook (BTree_Malloc / BTree_Realloc "
              "and fault points at the extension's own Python-object "
              "allocations: nodes, result containers, state tuples, lazy "
              "sequences): MemoryError must reach the "
              "caller, the container must stay sound with old-or-completed "
              "contents and keep working (the failed leaf is grown again), "
              "references must balance; also on STORED containers whose "
              "nodes are (partly) ghosts, where the allocations of the node "
              "loads the operation triggers fail too, with a reference "
              "ledger of the tree's NODES (none released once too often by "
              "an error exit); run on the plain and on the ASan+UBSan "
              "build.")
LEVEL = {"quick": "fault_enumeration", "thorough": "fault_enumeration"}
ASSUMPTIONS = ["allocation failures are injected at BTree_Malloc / "
               "BTree_Realloc (the wrappers the property anchors) and at the "
               "fault points of the guarded hook where the extension itself "
               "allocates Python objects (new nodes, result containers, state "
               "tuples, lazy sequences, result lists); failures of CPython's "
               "allocator inside interpreter API calls (PyArg_*, attribute "
               "lookups, ...) are not injected by the registered check"]


def plan(rng, tier):
    cfg = common.draw_cfg(rng, impls=("c",), p_stored=0.0,
                          p_default_sizes=0.05)
    cfg["stored"] = False
    cfg["dom"]["nk"] = rng.choice([12, 16, 24, 32, 48])
    cfg["dom"]["none"] = False
    if cfg["dom"]["fam"] == "OO" and rng.random() < 0.5:
        cfg["dom"]["vflavor"] = "tv"
        cfg["dom"]["vnone"] = False
    if cfg["dom"]["fam"][0] == "O" and rng.random() < 0.4:
        cfg["dom"]["kflavor"] = "hk"
        cfg["dom"]["none"] = False
        cfg["dom"]["ext"] = False
    pre = 0
    if cfg["leaf"] is None and is_tree(cfg["kind"]):
        cfg["dom"]["nk"] = rng.choice([200, 400])
        cfg["dom"]["ext"] = False
        pre = cfg["dom"]["nk"] * 2 // 3
    dom = Domain(cfg["dom"])
    kind = cfg["kind"]
    mapping = is_mapping(kind)
    g = common.Gen(rng, dom, kind)
    build = g.fill(pre or rng.randint(0, dom.nkeys - 1))
    from . import twin
    r = rng.random()
    absent = [k for k in range(dom.nkeys) if k not in g.model.d]
    if r < 0.45 and absent:
        k = rng.choice(absent)
        name = rng.choice(["set", "set", "setdefault", "insert"]
                          if kind == "BTree" else
                          ["set", "setdefault"] if mapping else
                          ["add", "sinsert"])
        op = [name, k, g.val()] if mapping else [name, k]
    elif r < 0.55:
        ks = g.keylist(1, 8)
        op = ["update", [[k, g.val()] for k in ks], rng.choice(
            ["list", "dict", "Bucket", "BTree"])] if mapping else \
            ["supdate", ks, rng.choice(["list", "tuple", "Set", "TreeSet"])]
    elif r < 0.63 and not mapping:
        op = [rng.choice(["ior", "iand", "isub", "ixor"]),
              list(dict.fromkeys(g.keylist(1, 8))),
              rng.choice(["list", "Set", "TreeSet", "sorted"])]
    elif r < 0.8:
        op = twin._modfunc(rng, g, dom, kind)
    elif r < 0.87:
        op = ["ctork", g.keylist(1, 10), rng.choice(["list", "sorted",
                                                    "gen"])]
    elif r < 0.93:
        def st():
            return sorted(set(g.keylist(0, 6)))
        op = ["resolve", st(), st(), st(),
              rng.choice([[0, 0, 0], [0, 0, 0], [1, 1, 1], [1, 2, 1],
                          [1, 1, 2], [0, 1, 0], [1, 0, 1]])]
    else:
        op = ["setstate", rng.choice(["fresh", "live", "live"])]
    if dom.fam == "fs" and kind == "Bucket" and rng.random() < 0.4:
        # the packed form: fromBytes() into the container itself (usually
        # more entries than it has room for) or into a new bucket
        op = [rng.choice(["fsload", "fsload", "fsrt"]),
              [[k, g.val()] for k in range(dom.nkeys)
               if rng.random() < 0.8]]
    mode = "hook"
    r2 = rng.random()
    # operations whose only allocations are Python objects the extension
    # creates itself (state tuples, lazy sequences, result lists, result
    # tuples): the hook has fault points there too
    if r2 < 0.06:
        op = ["getstate"]
    elif r2 < 0.16:
        from . import ranges
        meths = ranges.MAP_METHS if mapping else ranges.SET_METHS
        op = ranges._range_op(rng, g, meths)
    elif r2 < 0.24 and g.model.d:
        k = rng.choice(g.model.skeys())
        op = rng.choice([["pop", k], ["popitem"], ["del", k],
                         ["items"], ["values"], ["keys"], ["iter"]]
                        if mapping else
                        [["remove", k], ["spop"], ["discard", k],
                         ["keys"], ["iter"]])
    if is_tree(kind) and rng.random() < 0.06:
        # a lazy sequence made and indexed / sliced in one go (on stored
        # containers the leaves it has to count and to walk are ghosts)
        nn = len(g.model.d)
        op = ["seqidx", rng.choice(["keys", "values", "items"] if mapping
                                   else ["keys"]),
              rng.choice([rng.randint(-nn - 1, nn), rng.randint(-nn - 1, nn),
                          [rng.randint(-nn, nn), rng.randint(-nn, nn)]])]
    if tier == "survey" and rng.random() < 0.4:
        # exploratory only (tools/survey.py --tier survey), not part of the
        # registered check: CPython's own allocator fails (see DESIGN 10)
        mode = "pyalloc"
    if tier != "survey" and rng.random() < 0.3 and op[0] not in (
            "setstate", "getstate", "ctork", "resolve"):
        # the container is stored in a database and (part of) its nodes are
        # ghosts when the operation starts: the allocations of the node
        # loads the operation triggers fail too
        mode = "stored"
        if g.model.d and rng.random() < 0.5:
            k = rng.choice(g.model.skeys())
            op = rng.choice([["del", k], ["pop", k], ["del", k]] if mapping
                            else [["remove", k], ["discard", k]])
        if is_tree(kind) and cfg.get("leaf") and rng.random() < 0.15 and \
                dom.nkeys >= 2 * cfg["leaf"] + 2:
            # directed: a range with an open EXCLUSIVE upper end over a tree
            # whose last leaf holds exactly one key -- the search has to
            # step back to the previous leaf, which is a ghost whose load
            # may be what fails
            L = cfg["leaf"]
            n = rng.randint(2 * L + 2, min(dom.nkeys, 4 * L + 4))
            g = common.Gen(rng, dom, kind)
            build = []
            count = 0
            for k in range(n):
                b = ["set", k, g.val()] if mapping else ["add", k]
                g.model.apply(b)
                build.append(b)
                count += 1
                if count > L:
                    count -= count // 2     # (a split keeps the lower half)
            for k in range(n - 1, n - count, -1):
                b = ["del", k] if mapping else ["remove", k]
                g.model.apply(b)
                build.append(b)
            from . import ranges
            op = ["range", rng.choice(ranges.MAP_METHS if mapping
                                      else ranges.SET_METHS),
                  rng.choice(["omit", "omit", 0]), "omit", rng.randrange(2),
                  1, "kw"]
        cfg["sweep"] = rng.choice([["minimize"], ["minimize"],
                                   ["some", rng.randrange(1 << 16)],
                                   ["leaves"], ["interior"]])
        if cfg["dom"].get("kflavor") == "hk":
            # (strings, not small ints: those are immortal, and a key an
            # error exit releases once too often must die of it -- the
            # sanitizer sees it when the world is torn down)
            cfg["dom"]["kflavor"] = "str"
        if cfg["dom"].get("vflavor") == "tv":
            cfg["dom"]["vflavor"] = "int"
    follow = []
    # the follow-up grows the very region that failed
    if op[0] in ("set", "setdefault", "insert", "add", "sinsert"):
        k0 = op[1]
        for k in (k0, k0 + 1, k0 - 1, k0 + 2):
            if 0 <= k < dom.nkeys:
                f = ["set", k, g.val()] if mapping else ["add", k]
                g.model.apply(f)
                follow.append(f)
    follow += [g.op() for _ in range(rng.randint(4, 10))]
    return {"cfg": cfg, "build": build, "op": op, "follow": follow,
            "idx": [rng.randrange(1 << 16) for _ in range(3)],
            "_all": True, "mode": mode}


def simplify(plan):
    if len(plan["idx"]) > 1:
        for i in range(len(plan["idx"])):
            p = copy.deepcopy(plan)
            p["idx"] = [plan["idx"][i]]
            yield p


# ---------------------------------------------------------------------------

def _cmod(dom):
    return sys.modules["BTrees._%sBTree" % dom.fam]


class _Arm(object):
    stats = (0, 0)
    target = None
    target0 = None


def _do(plan, dom, c, live, arm, post=None):
    """run the operation under test with the fault armed by arm() right
    before the call (after its operands were built); post() reads the hook
    (_Arm.stats) and disarms right after it; -> outcome"""
    from . import twin
    cfg = plan["cfg"]
    op = plan["op"]
    cm = _cmod(dom)

    if post is None:
        def post():
            _Arm.stats = cm._verif_alloc_stats()
            cm._verif_alloc_arm(0)
    if op[0] in ("getstate", "pickle"):
        import pickle
        arm()
        try:
            if op[0] == "getstate":
                c.__getstate__()
            else:
                pickle.dumps(c, op[1])
            return ("ok", None)
        except Exception as e:
            return ops.norm_exc(e)
        finally:
            post()
    if op[0] == "setstate":
        kind = cfg["kind"]
        mapping = is_mapping(kind)
        if len(op) > 1 and op[1] == "live":
            # a live, non-empty container is given a LONGER state: the
            # vectors have to be re-allocated in place
            src = dom.new(kind, "c")
            for i in range(dom.nkeys):
                if mapping:
                    src[dom.key(i)] = dom.val(i % dom.nvals)
                else:
                    src.add(dom.key(i))
            new = c
        else:
            src = cmpfault._build(plan, dom)
            new = dom.new(kind, "c")
        state = src.__getstate__()
        live.append((src, mapping))
        if new is not c:
            live.append((new, mapping))
        _Arm.target = new
        arm()
        try:
            new.__setstate__(state)
            return ("ok", None)
        except Exception as e:
            return ops.norm_exc(e)
        finally:
            post()
    if op[0] in ("mod", "ctork", "resolve"):
        twin.PRECALL, twin.POSTCALL = arm, post
        try:
            return cmpfault._do(plan, dom, c, live)
        finally:
            twin.PRECALL = twin.POSTCALL = None
    ops.PRECALL, ops.POSTCALL = arm, post
    try:
        return ops.apply(c, op, dom, "c", cfg["kind"])
    finally:
        ops.PRECALL = ops.POSTCALL = None


def _nomem():
    """(set_nomemory, remove_mem_hooks) of CPython's _testcapi, or None"""
    try:
        import _testcapi
        return _testcapi.set_nomemory, _testcapi.remove_mem_hooks
    except Exception:
        return None


_plainout = cmpfault._plainout


PYCAP = 160         # allocation indices tried per operation (pyalloc mode)
PYSTOP = 6          # ... stop after this many consecutive clean completions


def _tracked(dom):
    out = []
    for o in list(dom.keys) + list(dom.vals):
        if isinstance(o, (int, float, bool, bytes)) or o is None:
            continue
        out.append(o)
    return out


def _one(plan, dom, cfg, ctx, n, nalloc, L0, L1, baseline, tracked, h, base,
         pout0=None):
    kind = cfg["kind"]
    mapping = is_mapping(kind)
    op = plan["op"]
    opn = op[0] if op[0] != "mod" else op[1]
    cm = _cmod(dom)
    c = cmpfault._build(plan, dom)
    live = [(c, mapping)]
    cm._verif_alloc_arm(0)
    pyalloc = plan.get("mode") == "pyalloc"
    if pyalloc:
        setnm, rmhooks = _nomem()
        out = _do(plan, dom, c, live, lambda: setnm(n - 1, n), rmhooks)
        rmhooks()
        fired = out == ("exc", "MemoryError")
    else:
        out = _do(plan, dom, c, live, lambda: cm._verif_alloc_arm(n))
        seen, fired = _Arm.stats
    target = _Arm.target if op[0] == "setstate" else c
    _Arm.target = None      # (no reference of ours may outlive this call)
    if pyalloc and not fired:
        # the call ended without MemoryError: the failure was not reached
        # (n is beyond the operation's allocations), or it hit an allocation
        # whose failure the code legitimately absorbs.  Either way the call
        # must then have done its whole job.
        sig = dict(base, mode="pyalloc")
        pout = _plainout(out, dom)
        out = None
        got = cmpfault._plain(ops.listing(target, mapping), dom, mapping)
        if pout != pout0 or not ops.same_value(got, L1):
            raise Violation(
                dict(sig, oracle="not-reported",
                     got=pout[1] if pout[0] == "exc" else "returned"),
                "%r with interpreter allocation %d failing: the call -> %r "
                "(unfaulted: %r) and left %r (completed: %r): neither "
                "MemoryError nor the completed operation" % (
                    op, n, pout, pout0, got[:30], L1[:30]))
        return "clean"
    if not fired:
        return
    ctx.fault("pyalloc-fail" if pyalloc else "alloc-fail")
    if pyalloc:
        sig = dict(base, mode="pyalloc")
    else:
        sig = dict(base, n=min(n, 6), of=min(nalloc, 6))
        ctx.ev(opn, n, nalloc, out[0], out[1] if out[0] == "exc" else None)
    if out != ("exc", "MemoryError"):
        raise Violation(
            dict(sig, oracle="not-reported",
                 got=out[1] if out[0] == "exc" else "returned"),
            "%r with allocation %d of %d failing: the call -> %r (must "
            "raise MemoryError)" % (op, n, nalloc, out))
    try:
        got = cmpfault._plain(ops.listing(target, mapping), dom, mapping)
    except Exception as e:
        raise Violation(dict(sig, oracle="listing-raised",
                             exc=type(e).__name__),
                        "%r, allocation %d/%d failed; listing the container "
                        "afterwards raised %r" % (op, n, nalloc, e))
    if is_tree(kind):
        try:
            common.structural(target, dom, cfg, None, None,
                              check_sizes=False, who=opn)
        except Violation as v:
            raise Violation(dict(sig, oracle="unsound",
                                 by=v.sig.get("oracle")),
                            "%r, allocation %d/%d failed: %s" % (
                                op, n, nalloc, v.detail))
    if op[0] == "setstate":
        # loading a state is destructive from its first step: empty (or,
        # for a tree, the old contents) and the completed state are accepted
        verdict = "old" if (got == [] or ops.same_value(got, L0)) else (
            "completed" if ops.same_value(got, L1) else "mixed")
    else:
        extra = None
        if op[0] == "update":
            extra = set((dom.pkid(ops.K(dom, kk)), dom.pvid(ops.V(dom, vv)))
                        for kk, vv in op[1])
        verdict = cmpfault._contents_verdict(op, L0, L1, got, mapping, extra)
        if (opn in cmpfault.READONLY or opn in ("getstate", "pickle")) \
                and opn != "ctork" and verdict != "old":
            verdict = None
    if verdict is None:
        raise Violation(
            dict(sig, oracle="partial-contents"),
            "%r, allocation %d/%d failed: contents %r are neither the "
            "previous %r nor the completed %r" % (op, n, nalloc, got[:30],
                                                  L0[:30], L1[:30]))
    if tracked:
        gc.collect()
        occ = cmpfault._occurrences(live, dom, None)
        for o in tracked:
            want = baseline[id(o)] + occ.get(id(o), 0)
            have = sys.getrefcount(o)
            if have != want:
                raise Violation(
                    dict(sig, oracle="refcount",
                         what="leak" if have > want else "over-release",
                         obj=type(o).__name__),
                    "%r, allocation %d/%d failed: %r has refcount %d, "
                    "expected %d" % (op, n, nalloc, o, have, want))
    if op[0] != "setstate" or op[-1] == "live":
        model = ops.Model(dom, kind)
        kidx = {dom.pkid(k): i for i, k in enumerate(dom.keys)}
        vidx = {}
        for j, v in enumerate(dom.vals):
            vidx.setdefault(dom.pvid(v), j)
        v = None
        for e in got:
            k = e[0] if mapping else e
            model.d[kidx[k]] = vidx[e[1]] if mapping else True
        cmpfault.query_sweep(c, model, dom, "c", kind, sig,
                             "%r, allocation %d/%d failed" % (op, n, nalloc))
        for f in plan["follow"]:
            want = model.apply(f)
            have = ops.apply(c, f, dom, "c", kind)
            if f[0] in ("update", "supdate") and have[0] == "ok":
                have = ("ok", None)
            if not ops.same_outcome(have, want) or not ops.same_value(
                    ops.listing(c, mapping), model.listing()):
                raise Violation(
                    dict(sig, oracle="follow-up", fop=f[0]),
                    "%r, allocation %d/%d failed; afterwards %r -> %r, "
                    "model %r" % (op, n, nalloc, f, have, want))
        if is_tree(kind):
            try:
                common.structural(c, dom, cfg, None, None,
                                  check_sizes=False, who="follow")
            except Violation as v2:
                raise Violation(dict(sig, oracle="unsound-later",
                                     by=v2.sig.get("oracle")), v2.detail)
    if pyalloc:
        ctx.nontriv((kind, common.fam_class(dom.fam), opn, "py", min(n, 24),
                     min(h, 4), verdict))
        ctx.interleaving((opn, "py", verdict))
        return verdict
    ctx.nontriv((kind, common.fam_class(dom.fam), opn, min(n, 8),
                 min(nalloc, 8), min(h, 4), verdict))
    ctx.interleaving((opn, min(n, 8), min(nalloc, 8), verdict))


DELETING = ("del", "pop", "popd", "popitem", "remove", "discard", "spop",
            "isub", "iand", "ixor", "clear")


def _stored_world(plan, dom):
    """-> (conn, container): built, committed, swept as planned"""
    from ..world import SimStorage, SimConnection, GHOST
    cfg = plan["cfg"]
    kind = cfg["kind"]
    conn = SimConnection(SimStorage(cfg.get("protocol", 3)), "c")
    c = dom.new(kind, "c")
    conn.add(c)
    for op in plan["build"]:
        ops.apply(c, op, dom, "c", kind)
    common.commit(conn, None)
    sw = cfg.get("sweep") or ["minimize"]
    if sw[0] == "minimize":
        conn.sweep("minimize")
    else:
        nodes = conn.nodes()
        pick = set()
        for j, o in enumerate(nodes):
            leaf = not hasattr(o, "_firstbucket")
            if sw[0] == "some":
                if (sw[1] >> (j % 16)) & 1:
                    pick.add(o._p_oid)
            elif (sw[0] == "leaves") == leaf:
                pick.add(o._p_oid)
        conn.sweep("deactivate", pick)
    return conn, c


class _LoadWatch(object):
    """notes whether a MemoryError came out of a node load"""

    def __init__(self, conn):
        self.conn = conn
        self.failed = 0
        self.loads = 0
        orig = conn.setstate

        def setstate(obj):
            self.loads += 1
            try:
                orig(obj)
            except MemoryError:
                self.failed += 1
                raise
        conn.setstate = setstate

    def close(self):
        del self.conn.setstate
        self.conn = None


def _underreferenced(c, conn):
    """The nodes below the root of a fully loaded stored C tree are each
    referenced by: the slots of the interior nodes that hold them, the `next`
    of the leaf before them, the `firstbucket` of every node whose leftmost
    leaf they are, and (unless they are new) the object cache.  Whatever else refers to them here
    (this function) does so to all of them alike: a node whose count is
    BELOW the others' was released once too often (an error exit that gives
    back a reference it does not own).  -> (class, shortfall) or None"""
    refs = {}
    objs = {}

    def ref(o):
        objs[id(o)] = o
        refs[id(o)] = refs.get(id(o), 0) + 1
    todo = [c]
    tt = type(c)
    while todo:
        node = todo.pop()
        st = node.__getstate__()
        if st is None or len(st) == 1:
            continue
        ref(st[1])
        for ch in st[0][0::2]:
            ref(ch)
            if type(ch) is tt:
                todo.append(ch)
            else:
                lst = ch.__getstate__()
                if len(lst) > 1 and lst[1] is not None:
                    ref(lst[1])
        st = lst = ch = None
    node = None
    if len(objs) < 2:
        return None
    reg = {}
    for o in conn.registered:
        reg[id(o)] = reg.get(id(o), 0) + 1
    o = None
    delta = {}
    for i in objs:
        # (a node made by this very call -- a split -- is not in the cache)
        # ... and the jar's list of changed objects holds those it was told
        # about)
        delta[i] = sys.getrefcount(objs[i]) - refs[i] - (
            1 if objs[i]._p_oid is not None else 0) - reg.get(i, 0)
    # what is left is this function's own doing: the `objs` table and the
    # argument of getrefcount()
    top = 2
    for i in sorted(delta, key=lambda j: delta[j]):
        if delta[i] < top:
            return ("interior" if type(objs[i]) is tt else "leaf",
                    top - delta[i])
        break
    return None


def _one_stored(plan, dom, cfg, ctx, n, nalloc, L0, L1, h, base):
    kind = cfg["kind"]
    mapping = is_mapping(kind)
    op = plan["op"]
    opn = op[0] if op[0] != "mod" else op[1]
    cm = _cmod(dom)
    conn, c = _stored_world(plan, dom)
    watch = _LoadWatch(conn)
    live = [(c, mapping)]
    cm._verif_alloc_arm(0)
    try:
        out = _do(plan, dom, c, live, lambda: cm._verif_alloc_arm(n))
    finally:
        watch.close()
    seen, fired = _Arm.stats
    _Arm.target = None
    if not fired:
        return
    where = "node-load" if watch.failed else "operation"
    ctx.fault("alloc-fail")
    ctx.fault("alloc-fail-in-" + where)
    sig = dict(base, stored=True, where=where,
               opclass="delete" if opn in DELETING else "other")
    ctx.ev(opn, "stored", n, nalloc, out[0],
           out[1] if out[0] == "exc" else None)
    what = "%r on a stored container (sweep %r), allocation %d of %d " \
        "failing (inside a %s)" % (op, cfg.get("sweep"), n, nalloc, where)
    if out != ("exc", "MemoryError"):
        raise Violation(
            dict(sig, oracle="not-reported",
                 got=out[1] if out[0] == "exc" else "returned"),
            "%s: the call -> %r (must raise MemoryError)" % (what, out))
    if is_tree(kind):
        # the walker first: it names the damage (signature)
        try:
            w = walker.walk(c, dom, mapping)
            problems = sorted(set(w.problems))
        except Exception as e:
            problems = ["walk-raised-" + type(e).__name__]
        if problems:
            raise Violation(dict(sig, oracle="unsound",
                                 problem=problems[0]),
                            "%s: afterwards the walker finds %r" % (
                                what, problems))
    try:
        got = cmpfault._plain(ops.listing(c, mapping), dom, mapping)
    except Exception as e:
        raise Violation(dict(sig, oracle="listing-raised",
                             exc=type(e).__name__),
                        "%s; listing the container afterwards raised %r" % (
                            what, e))
    if is_tree(kind):
        try:
            common.structural(c, dom, cfg, None, None, check_sizes=False,
                              who=opn)
        except Violation as v:
            raise Violation(dict(sig, oracle="unsound",
                                 by=v.sig.get("oracle")),
                            "%s: %s" % (what, v.detail))
    if is_tree(kind):
        w = None
        low = _underreferenced(c, conn)
        if low:
            raise Violation(dict(sig, oracle="node-released-too-often",
                                 node=low[0]),
                            "%s: afterwards a %s node of the tree holds %d "
                            "reference(s) fewer than the nodes, leaf links "
                            "and first-leaf links that point at it account "
                            "for (it will be freed while still linked)" % (
                                what, low[0], low[1]))
    extra = None
    if op[0] == "update":
        extra = set((dom.pkid(ops.K(dom, kk)), dom.pvid(ops.V(dom, vv)))
                    for kk, vv in op[1])
    verdict = cmpfault._contents_verdict(op, L0, L1, got, mapping, extra)
    if opn in cmpfault.READONLY and verdict != "old":
        verdict = None
    if verdict is None:
        raise Violation(
            dict(sig, oracle="partial-contents"),
            "%s: contents %r are neither the previous %r nor the completed "
            "%r" % (what, got[:30], L0[:30], L1[:30]))
    model = ops.Model(dom, kind)
    kidx = {dom.pkid(k): i for i, k in enumerate(dom.keys)}
    vidx = {}
    for j, v in enumerate(dom.vals):
        vidx.setdefault(dom.pvid(v), j)
    for e in got:
        k = e[0] if mapping else e
        model.d[kidx[k]] = vidx[e[1]] if mapping else True
    cmpfault.query_sweep(c, model, dom, "c", kind, sig, what)
    for f in plan["follow"]:
        want = model.apply(f)
        have = ops.apply(c, f, dom, "c", kind)
        if f[0] in ("update", "supdate") and have[0] == "ok":
            have = ("ok", None)
        if not ops.same_outcome(have, want) or not ops.same_value(
                ops.listing(c, mapping), model.listing()):
            raise Violation(
                dict(sig, oracle="follow-up", fop=f[0]),
                "%s; afterwards %r -> %r, model %r" % (what, f, have, want))
    if is_tree(kind):
        try:
            common.structural(c, dom, cfg, None, None, check_sizes=False,
                              who="follow")
        except Violation as v2:
            raise Violation(dict(sig, oracle="unsound-later",
                                 by=v2.sig.get("oracle")), v2.detail)
    # "usable" for a stored container includes being committed: what the
    # failed call (and the follow-up) changed must reach the database
    from ..world import SimConnection
    mine = ops.listing(c, mapping)
    try:
        conn.commit()
    except Exception as e:
        raise Violation(dict(sig, oracle="commit-raised",
                             exc=type(e).__name__),
                        "%s; committing afterwards raised %r" % (what, e))
    if not conn.hazards:
        rt = SimConnection(conn.storage, "c").get(c._p_oid)
        try:
            theirs = ops.listing(rt, mapping)
        except Exception as e:
            raise Violation(dict(sig, oracle="reload", exc=type(e).__name__),
                            "%s; a fresh reader of the committed container "
                            "cannot list it: %r" % (what, e))
        if not ops.same_value(mine, theirs):
            raise Violation(dict(sig, oracle="reload", what_="contents"),
                            "%s; after commit a fresh reader lists %r, the "
                            "writer %r" % (what, theirs[:30], mine[:30]))
        if is_tree(kind):
            try:
                common.structural(rt, dom, cfg, None, None,
                                  check_sizes=False, who="reader")
            except Violation as v3:
                raise Violation(dict(sig, oracle="reload",
                                     by=v3.sig.get("oracle")),
                                "%s; after commit: %s" % (what, v3.detail))
    mine = theirs = rt = None
    ctx.nontriv((kind, common.fam_class(dom.fam), opn, "stored", where,
                 min(n, 8), min(nalloc, 8), min(h, 4), verdict))
    ctx.interleaving((opn, "stored", where, verdict))


def _execute_stored(plan, ctx, dom, cfg):
    kind = cfg["kind"]
    mapping = is_mapping(kind)
    op = plan["op"]
    opn = op[0] if op[0] != "mod" else op[1]
    cm = _cmod(dom)
    base = {"kind": kind, "op": opn, "fam": common.fam_class(dom.fam)}
    try:
        conn0, c0 = _stored_world(plan, dom)
        w0 = _LoadWatch(conn0)
        L0 = cmpfault._plain(dom_listing_unloaded(plan, dom), dom, mapping)
        cm._verif_alloc_arm(0)
        _do(plan, dom, c0, [(c0, mapping)],
            lambda: cm._verif_alloc_arm(0))
        nalloc = _Arm.stats[0]
        w0.close()
        _Arm.target = None
        L1 = cmpfault._plain(ops.listing(c0, mapping), dom, mapping)
        h = 0
        if is_tree(kind):
            try:
                h = walker.walk(c0, dom, mapping).height
            except Exception:
                h = -1
        if w0.loads:
            ctx.probe("stored-op-loaded-nodes")
        del c0, conn0
        if nalloc == 0:
            ctx.probe("no-allocations")
            return
        ctx.probe("stored-allocations-%d" % min(nalloc, 8))
        for n in range(1, min(nalloc, 64) + 1):
            _one_stored(plan, dom, cfg, ctx, n, nalloc, L0, L1, h, base)
            # tear the world of this execution down NOW (jar, cache and
            # nodes form cycles and the collector is off): a node the failed
            # call released once too often is then touched after its memory
            # was given back -- the sanitizer's business (seeded change
            # C17-13)
            gc.collect()
    finally:
        cm._verif_alloc_arm(0)


def dom_listing_unloaded(plan, dom):
    """the committed contents, listed from a world of its own (so that
    listing does not load the nodes of the world under test)"""
    cfg = plan["cfg"]
    c = dom.new(cfg["kind"], "c")
    for op in plan["build"]:
        ops.apply(c, op, dom, "c", cfg["kind"])
    return ops.listing(c, is_mapping(cfg["kind"]))


def execute(plan, ctx):
    from .. import env
    cfg = plan["cfg"]
    env.activate(ctx.variant)
    dom = Domain(cfg["dom"])
    dom.set_node_sizes(cfg.get("leaf"), cfg.get("internal"))
    kind = cfg["kind"]
    mapping = is_mapping(kind)
    op = plan["op"]
    opn = op[0] if op[0] != "mod" else op[1]
    cm = _cmod(dom)
    base = {"kind": kind, "op": opn, "fam": common.fam_class(dom.fam)}
    if plan.get("mode") == "stored":
        keys.HOOK.reset()
        _execute_stored(plan, ctx, dom, cfg)
        return
    tracked = _tracked(dom)
    gc.collect()
    baseline = {id(o): sys.getrefcount(o) for o in tracked}
    keys.HOOK.reset()
    try:
        c0 = cmpfault._build(plan, dom)
        L0 = cmpfault._plain(ops.listing(c0, mapping), dom, mapping)
        live0 = [(c0, mapping)]
        cm._verif_alloc_arm(0)
        out0 = _do(plan, dom, c0, live0, lambda: cm._verif_alloc_arm(0))
        nalloc = _Arm.stats[0]
        _Arm.target0 = _Arm.target
        _Arm.target = None
        L1 = cmpfault._plain(ops.listing(
            _Arm.target0 if op[0] == "setstate" and _Arm.target0 is not None
            else c0, mapping), dom, mapping)
        _Arm.target0 = None
        pout0 = _plainout(out0, dom)
        h = 0
        if is_tree(kind):
            try:
                h = walker.walk(c0, dom, mapping).height
            except Exception:
                h = -1
        del c0, live0
        out0 = None
        if plan.get("mode") == "pyalloc":
            if _nomem() is None:
                ctx.probe("pyalloc-unavailable")
                return
            clean = 0
            outcomes = {}
            for n in range(1, PYCAP + 1):
                r = _one(plan, dom, cfg, ctx, n, 0, L0, L1, baseline,
                         tracked, h, base, pout0)
                if r == "clean":
                    clean += 1
                    if clean >= PYSTOP:
                        break
                else:
                    clean = 0
                    outcomes[r] = outcomes.get(r, 0) + 1
            ctx.ev(opn, "pyalloc", sorted(outcomes))
            ctx.probe("pyalloc-ops")
            if not outcomes:
                ctx.probe("pyalloc-never-fired")
            nalloc = 0
        elif nalloc == 0:
            ctx.probe("no-allocations")
            return
        ctx.probe("allocations-%d" % min(nalloc, 8))
        idxs = range(1, nalloc + 1) if plan.get("_all") and nalloc <= 64 \
            else sorted(set(1 + x % nalloc for x in plan["idx"]))
        if plan.get("mode") == "pyalloc":
            idxs = []
        for n in idxs:
            _one(plan, dom, cfg, ctx, n, nalloc, L0, L1, baseline, tracked,
                 h, base)
        if tracked:
            gc.collect()
            for o in tracked:
                have = sys.getrefcount(o)
                if have != baseline[id(o)]:
                    raise Violation(
                        dict(base, oracle="refcount-final",
                             what="leak" if have > baseline[id(o)]
                             else "over-release", obj=type(o).__name__),
                        "after dropping every container %r has refcount "
                        "%d, baseline %d (operation %r)" % (
                            o, have, baseline[id(o)], op))
    finally:
        cm._verif_alloc_arm(0)

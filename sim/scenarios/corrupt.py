"""C18 -- the diagnostic checkers accept every valid tree and detect every
corruption.

"Stored state that was damaged after it was written" is a storage fault and
is injected as one: a valid tree of a sampled shape is built by a seeded
history; then ONE structured corruption is applied to the state of ONE node,
either through __setstate__ on the live node (transient tree) or by
rewriting that node's stored record before a fresh connection loads the tree
(record-corruption fault).  Corruptions: swap two adjacent / distant keys,
duplicate a key, shift a key past its neighbour or past its separator bound,
move a separator below the maximum of its left subtree or above the minimum
of its right one, drop a leaf's successor, redirect it (skip one, point
backwards, point into another subtree), empty a leaf, point firstbucket at
another leaf, make the children of a node of mixed kinds, replace a child by
an empty node.

Oracle: the independent walker (sim/walker.py) decides whether the mutated
tree really breaks one of the five invariant classes of the statement (a
mutation that happens to be harmless is counted and skipped).  Pristine =>
check(t) and t._check() both succeed.  Broken => at least one of them raises
AssertionError; neither may crash.
"""
import copy

from .. import ops, walker
from ..core import Violation, Precondition
from ..domains import Domain, is_mapping
from . import common

PROP = "C18"
SHRINK = [["build"]]
BUDGET = {"quick": {"plain": 40000, "max_s": 100},
          "thorough": {"plain": 1500000, "max_s": 1500}}
RULE = ("one run = one seeded valid tree + one structured corruption of one "
        "node's state (live __setstate__ or stored-record rewrite + fresh "
        "load); the independent walker classifies the result, the package "
        "checkers must agree; distinct non-trivial = distinct (impl, kind, "
        "corruption class, position class of the node (root / interior "
        "level / first, middle, last leaf / left or right spine), walker "
        "verdict, tree shape signature) tuples with a non-harmless verdict")
TECHNIQUE = ("fault injection into stored/serialized node state (one "
             "structured corruption per run) on seeded tree shapes; "
             "independent structural walker as oracle for the package's "
             "check() and _check()")
LEVEL_TEXT = ("Seeded valid trees (all families, BTree/TreeSet, both "
              "implementations, heights 1-5) x one structured corruption of "
              "one node's state from 14 classes at a seeded position, "
              "applied through __setstate__ or as a rewrite of the stored "
              "record read by a fresh connection; an independent walker "
              "decides validity; check() and _check() must accept pristine "
              "trees -- also freshly loaded by a new connection (every node a "
              "ghost, the checker being the first thing that touches them) "
              "and with a seeded subset of nodes evicted -- and, between "
              "them, reject every invalid one with AssertionError without "
              "crashing -- the damaged stored tree also cold, on connections "
              "of their own where a checker is the first thing that touches "
              "it. Sampling.")

KINDS = ["swap-adjacent", "swap-distant", "dup-key", "shift-key-up",
         "shift-key-down", "key-past-bound", "sep-below-left",
         "sep-above-right", "drop-next", "next-skip", "next-back",
         "next-other", "empty-leaf", "wrong-firstbucket", "mixed-children",
         "empty-child"]

CLASS_OF = {
    "leaf-keys-not-increasing": "order", "chain-keys-not-increasing": "order",
    "separators-not-increasing": "order",
    "key-below-bound": "containment", "key-above-bound": "containment",
    "separator-below-bound": "containment",
    "separator-above-bound": "containment",
    "chain-differs-from-descent": "linking", "chain-leaf-not-in-tree":
    "linking", "chain-cycle": "linking", "firstbucket-mismatch": "linking",
    "mixed-children": "uniformity",
    "empty-leaf": "non-empty", "empty-interior": "non-empty",
    "empty-tree-has-firstbucket": "linking",
    "bad-tree-state": "state", "bad-leaf-state": "state",
}


def plan(rng, tier):
    cfg = common.draw_cfg(rng, kinds=("BTree", "TreeSet"), p_stored=0.3,
                          p_default_sizes=0.03)
    if cfg["internal"] == 2 and rng.random() < 0.7:
        cfg["internal"] = rng.choice([3, 4])
    cfg["dom"]["nk"] = rng.choice([12, 16, 24, 32, 48, 64])
    # (None is a legal object key, the smallest one: in a quarter of the
    # object-keyed runs it is among the keys)
    cfg["dom"]["none"] = cfg["dom"]["fam"][0] == "O" and rng.random() < 0.25
    if cfg["leaf"] is None:
        cfg["dom"]["nk"] = rng.choice([400, 800])
        cfg["dom"]["ext"] = False
    dom = Domain(cfg["dom"])
    g = common.Gen(rng, dom, cfg["kind"])
    build = g.fill(rng.randint(max(2, dom.nkeys // 3), dom.nkeys))
    if rng.random() < 0.5:
        for _ in range(rng.randint(1, 4)):
            ks = g.model.skeys()
            if len(ks) < 4:
                break
            a = rng.randrange(len(ks))
            for k in ks[a:a + rng.randint(1, max(1, len(ks) // 4))]:
                op = ["del" if g.mapping else "remove", k]
                g.model.apply(op)
                build.append(op)
    return {"cfg": cfg, "build": build,
            # a valid tree is also what two concurrent transactions and the
            # conflict resolver leave behind (a merged leaf may hold more
            # entries than a leaf filled through one tree ever does)
            "merge": rng.randrange(1 << 16) if cfg["stored"] and
            rng.random() < 0.5 else None,
            "corrupt": rng.choice(KINDS + ["none"]),
            "node": rng.randrange(1 << 20), "arg": rng.randrange(1 << 20)}


def simplify(plan):
    if plan["cfg"]["stored"]:
        p = copy.deepcopy(plan)
        p["cfg"]["stored"] = False
        yield p


# ---------------------------------------------------------------------------

def _nodes(tree):
    """-> (interior nodes [(node, depth, path)], leaves in chain order)"""
    tt = type(tree)
    interior = []

    def walk(n, depth, spine):
        st = n.__getstate__()
        if st is None or len(st) == 1:
            return
        interior.append((n, depth, spine))
        ch = st[0][0::2]
        for i, c in enumerate(ch):
            if type(c) is tt:
                sp = spine
                if i > 0 and sp == "left":
                    sp = "mid"
                if i < len(ch) - 1 and sp == "right":
                    sp = "mid"
                if spine == "root":
                    sp = "left" if i == 0 else (
                        "right" if i == len(ch) - 1 else "mid")
                walk(c, depth + 1, sp)
    walk(tree, 0, "root")
    leaves = []
    b = tree._firstbucket
    seen = set()
    while b is not None and id(b) not in seen:
        seen.add(id(b))
        leaves.append(b)
        b = b._next
    walk = None     # (break the closure cycle: see sim/walker.py)
    return interior, leaves


def _leaf_parts(leaf, mapping):
    st = leaf.__getstate__()
    items = list(st[0])
    nxt = st[1] if len(st) > 1 else None
    step = 2 if mapping else 1
    return items, nxt, step


def _mk_leaf_state(items, nxt):
    return (tuple(items), nxt) if nxt is not None else (tuple(items),)


def _apply_corruption(tree, plan, dom, mapping):
    """mutates one node through __setstate__; returns (kind, position
    class) or None when the corruption does not apply to this shape"""
    kind = plan["corrupt"]
    interior, leaves = _nodes(tree)
    if not leaves:
        return None
    st0 = tree.__getstate__()
    embedded = st0 is not None and len(st0) == 1
    sel, arg = plan["node"], plan["arg"]

    def leafpos(i):
        if len(leaves) == 1:
            return "only-leaf"
        return "first-leaf" if i == 0 else (
            "last-leaf" if i == len(leaves) - 1 else "middle-leaf")

    def set_leaf(i, items, nxt):
        if embedded:
            tree.__setstate__(((_mk_leaf_state(items, nxt),),))
        else:
            leaves[i].__setstate__(_mk_leaf_state(items, nxt))

    if kind in ("swap-adjacent", "swap-distant", "dup-key", "shift-key-up",
                "shift-key-down", "key-past-bound", "empty-leaf",
                "drop-next", "next-skip", "next-back", "next-other"):
        i = sel % len(leaves)
        items, nxt, step = _leaf_parts(leaves[i], mapping)
        n = len(items) // step
        keys = [items[j * step] for j in range(n)]
        pos = leafpos(i)
        if kind == "swap-adjacent":
            if n < 2:
                return None
            a = arg % (n - 1)
            items[a * step], items[(a + 1) * step] = \
                items[(a + 1) * step], items[a * step]
        elif kind == "swap-distant":
            if n < 3:
                return None
            items[0], items[(n - 1) * step] = items[(n - 1) * step], items[0]
        elif kind == "dup-key":
            if n < 2:
                return None
            a = arg % (n - 1)
            items[(a + 1) * step] = items[a * step]
        elif kind in ("shift-key-up", "shift-key-down", "key-past-bound"):
            # replace one key by another key of the universe
            a = arg % n
            idx = dom.index_of(keys[a])
            if idx is None:
                return None
            if kind == "shift-key-up":
                new = idx + 1 + (arg >> 8) % 4
            elif kind == "shift-key-down":
                new = idx - 1 - (arg >> 8) % 4
            else:
                new = (arg >> 8) % dom.nkeys
            if not (0 <= new < dom.nkeys) or new == idx:
                return None
            items[a * step] = dom.key(new)
        elif kind == "empty-leaf":
            items = []
        elif kind == "drop-next":
            if nxt is None:
                return None
            nxt = None
        elif kind == "next-skip":
            if nxt is None:
                return None
            nxt = nxt._next
        elif kind == "next-back":
            if i == 0:
                return None
            nxt = leaves[(arg % i)]
        elif kind == "next-other":
            if len(leaves) < 3:
                return None
            j = arg % len(leaves)
            if leaves[j] is nxt or j == i:
                return None
            nxt = leaves[j]
        if embedded and kind.startswith(("next-", "drop-next")):
            return None
        set_leaf(i, items, nxt)
        return kind, pos
    if not interior:
        return None
    node, depth, spine = interior[sel % len(interior)]
    st = node.__getstate__()
    data = list(st[0])
    first = st[1]
    nchild = (len(data) + 1) // 2
    pos = "root" if depth == 0 else "interior-%d-%s" % (min(depth, 3), spine)
    if kind in ("sep-below-left", "sep-above-right"):
        if nchild < 2:
            return None
        j = 1 + 2 * (arg % (nchild - 1))
        idx = dom.index_of(data[j])
        if idx is None:
            return None
        new = idx - 1 - (arg >> 8) % 6 if kind == "sep-below-left" \
            else idx + 1 + (arg >> 8) % 6
        if not (0 <= new < dom.nkeys):
            return None
        data[j] = dom.key(new)
    elif kind == "wrong-firstbucket":
        if len(leaves) < 2:
            return None
        j = arg % len(leaves)
        if leaves[j] is first:
            return None
        first = leaves[j]
    elif kind == "mixed-children":
        c = data[0::2]
        j = arg % nchild
        tt = type(tree)
        if type(c[j]) is tt:
            # replace an interior child by its first leaf
            repl = c[j]._firstbucket
        else:
            repl = tt()
            repl.__setstate__(((c[j],), c[j]))
        if nchild < 2:
            return None
        data[2 * j] = repl
    elif kind == "empty-child":
        c = data[0::2]
        if nchild < 2 or type(c[0]) is not type(tree):
            return None
        j = arg % nchild
        data[2 * j] = type(tree)()
    else:
        return None
    node.__setstate__((tuple(data), first))
    return kind, pos


def _run_checker(fn):
    try:
        fn()
        return "accept"
    except AssertionError:
        return "AssertionError"
    except Exception as e:
        return type(e).__name__


def execute(plan, ctx):
    cfg = plan["cfg"]
    stored = cfg.get("stored")
    cfgb = dict(cfg, stored=False)
    dom, t, _ = common.setup(cfgb, ctx.variant)
    impl, kind = cfg["impl"], cfg["kind"]
    mapping = is_mapping(kind)
    model = ops.Model(dom, kind)
    for op in plan["build"]:
        model.apply(op)
        ops.apply(t, op, dom, impl, kind)
    if not ops.same_value(ops.listing(t, mapping), model.listing()):
        raise Precondition("built contents differ from the model")
    from BTrees import check as checkmod
    base = {"impl": impl, "kind": kind}
    w0 = walker.walk(t, dom, mapping)
    if w0.problems:
        raise Precondition("API-built tree is not valid (C03's business)")
    # pristine: both checkers accept
    for name, fn in (("_check", t._check), ("check", lambda: checkmod.check(t))):
        r = _run_checker(fn)
        if r != "accept":
            raise Violation(dict(base, oracle="pristine-rejected", by=name,
                                 got=r),
                            "%s rejected a tree built through the API: %s, "
                            "shape %r" % (name, r, w0.shape))
    ctx.shape(w0.shape)
    if plan["corrupt"] == "none":
        ctx.ev("pristine")
        ctx.nontriv((impl, kind, "pristine", w0.shape))
        return
    if stored:
        # the same corruption as a rewrite of the stored record: commit the
        # valid tree, corrupt the live node, re-serialise only that node's
        # record, and let a fresh connection load the tree
        from ..world import SimStorage, SimConnection
        st = SimStorage(cfg.get("protocol", 3))
        conn = SimConnection(st, impl)
        oid = conn.add(t)
        conn.commit()
        if conn.hazards:
            raise Precondition("known C04 finding: inline-duplicate")
        if plan.get("merge") is not None:
            from ..world import ConflictError
            free = [k for k in range(dom.nkeys) if k not in model.d]
            if len(free) >= 2:
                ca, cb = SimConnection(st, impl), SimConnection(st, impl)
                ta, tb = ca.get(oid), cb.get(oid)
                b = plan["merge"] % len(free)
                for j, k in enumerate(free[b:b + 4]):
                    ops.apply(ta if j % 2 == 0 else tb,
                              ["set", k, 0] if mapping else ["add", k],
                              dom, impl, kind)
                n0 = len(st.resolver_log)
                try:
                    ca.commit()
                    cb.commit()
                except ConflictError:
                    pass
                if ca.hazards or cb.hazards:
                    raise Precondition("known C04 finding: inline-duplicate")
                ta = tb = ca = cb = None
                conn.begin()        # `t` shows what is stored now
                if len(st.resolver_log) > n0:
                    ctx.fault("concurrent-commit")
                    ctx.probe("valid-tree-from-merge")
                wm = walker.walk(t, dom, mapping)
                if wm.problems:
                    raise Precondition("merged tree is not valid (C08's "
                                       "business)")
                wm = None
        # a valid tree must be accepted in every activation state: loaded
        # by a fresh connection (every node but the root a ghost), with a
        # checker as the very first thing that touches it, and with a planned
        # subset of its nodes evicted again
        for name in ("_check", "check"):
            r0 = SimConnection(st, impl)
            t0 = r0.get(oid)
            fn = t0._check if name == "_check" else (
                lambda t0=t0: checkmod.check(t0))
            r = _run_checker(fn)
            if r != "accept":
                raise Violation(
                    dict(base, oracle="pristine-rejected", by=name, got=r,
                         state="freshly-loaded"),
                    "%s rejected a valid stored tree freshly loaded by a new "
                    "connection (all nodes ghosts): %s, shape %r" % (
                        name, r, w0.shape))
            nodes = r0.nodes()
            sub = set(o._p_oid for j, o in enumerate(nodes)
                      if (plan["arg"] >> (j % 20)) & 1)
            if r0.sweep("deactivate", sub):
                ctx.fault("evict-between")
            r = _run_checker(fn)
            if r != "accept":
                raise Violation(
                    dict(base, oracle="pristine-rejected", by=name, got=r,
                         state="partly-evicted"),
                    "%s rejected a valid stored tree after some of its nodes "
                    "were evicted: %s, shape %r" % (name, r, w0.shape))
            ctx.probe("accepted-with-ghosts:" + name)
    res = _apply_corruption(t, plan, dom, mapping)
    if res is None:
        ctx.probe("corruption-not-applicable")
        return
    ckind, pos = res
    ctx.fault("record-corruption")
    if stored:
        # write every node's (now partly corrupted) state back verbatim and
        # reload through a fresh connection
        for obj in conn.nodes():
            if obj._p_state != -1:
                obj._p_changed = True
        try:
            conn.commit()
        except Exception:
            ctx.probe("corrupted-state-not-storable")
            return
        if conn.hazards:
            raise Precondition("known C04 finding: inline-duplicate")
        r = SimConnection(st, impl)
        t = r.get(oid)
    try:
        w = walker.walk(t, dom, mapping)
        problems = sorted(set(w.problems))
    except Exception as e:
        problems = ["walker-raised-" + type(e).__name__]
    classes = sorted(set(CLASS_OF.get(p, "state") for p in problems))
    ctx.ev("corrupt", ckind, pos, tuple(problems))
    if not problems:
        ctx.probe("harmless:" + ckind)
        return
    if any(p.startswith("walker-raised") or CLASS_OF.get(p) == "state"
           for p in problems):
        ctx.probe("unparsable-after:" + ckind)
        return
    verdicts = []
    if stored:
        # first on connections of their own, where a checker is the very
        # first thing that touches the damaged tree (every node a ghost: the
        # walker above loaded the nodes of ITS connection only)
        ta = SimConnection(st, impl).get(oid)
        tb = SimConnection(st, impl).get(oid)
        verdicts.append(("freshly-loaded", _run_checker(ta._check),
                         _run_checker(lambda: checkmod.check(tb))))
        ta = tb = None
    verdicts.append(("loaded", _run_checker(t._check),
                     _run_checker(lambda: checkmod.check(t))))
    for state, ra, rb in verdicts:
        ctx.probe("detected-by:" + (
            "both" if ra == rb == "AssertionError" else
            "_check" if ra == "AssertionError" else
            "check" if rb == "AssertionError" else "none"))
        if ra != "AssertionError" and rb != "AssertionError":
            sig = dict(base, oracle="corruption-missed", corruption=ckind,
                       cls=classes[0], _check=ra, check=rb,
                       problem=problems[0])
            if state != "loaded":
                sig["state"] = state
            raise Violation(
                sig,
                "corruption %s at %s (tree %s): walker says %r; _check() -> "
                "%s, check() -> %s; shape before %r" % (
                    ckind, pos, state, problems, ra, rb, w0.shape))
    ctx.nontriv((impl, kind, ckind, pos, tuple(classes), w0.shape))
    ctx.interleaving((ckind, pos, tuple(classes), ra, rb))

"""C16 -- the C extension accounts for every reference and stays inside its
memory.

Two conservation monitors over a broad seeded workload on object-keyed and
object-valued families of the C implementation (hooked keys HK / tracked
values TV from sim/keys.py, or str / tuple keys):

  ledger     transient containers: after EVERY operation -- successful or
             failing (bad key/value, missing key, comparison that raises) --
             sys.getrefcount(obj) - baseline == number of slots (leaf slots +
             separators from index 1) that hold obj in all live containers:
             "exactly one reference per stored key and value";
             stored containers (every load creates new key objects): at
             quiescence -- after commits, evictions, reloads and finally
             dropping all containers, caches and connections -- the number of
             live HK / TV instances is back to the universe and every
             universe object is back at its baseline (nothing leaked; a count
             that went negative would have crashed or shown in the sanitizer);
  sanitizer  the same plans on the ASan+UBSan build with assertions enabled
             and PYTHONMALLOC=malloc.

Workload: the C01 alphabet incl. failing calls, range queries and lazy
sequences (held across mutations), minKey/maxKey, the binary operators
| & -, module-level set algebra (weighted forms where defined), in-place
operators, constructor and update from other containers, direct conflict
merges, pickling and copying, comparison faults (cmp-raise), and for stored
containers commits, aborts and cache sweeps.
"""
import copy
import gc
import pickle
import sys

from .. import ops, keys
from ..core import Violation, Precondition
from ..domains import Domain, is_mapping, is_tree, FAMILIES
from . import common, cmpfault, ranges

PROP = "C16"
SHRINK = [["ops"]]
BUDGET = {"quick": {"plain": 9000, "asan": 4000, "max_s": 110},
          "thorough": {"plain": 250000, "asan": 120000, "max_s": 1500}}
RULE = ("one run = one seeded history (30-90 calls) of the broad workload "
        "on one object-keyed or object-valued container configuration of the "
        "C implementation, with the reference ledger evaluated after every "
        "call (transient) or at quiescence (stored, with commits / aborts / "
        "cache sweeps); distinct non-trivial = distinct (kind, family class, "
        "transient-or-stored, operation, outcome class) tuples on which the "
        "ledger was evaluated")
TECHNIQUE = ("conservation monitor (reference-count ledger per stored key / "
             "value object, live-instance count at quiescence) over seeded "
             "histories with error paths, comparison faults, cache "
             "eviction, hostile operands and finalizer re-entry (user "
             "callbacks injected inside operations); the same plans on the "
             "ASan+UBSan+assert build")
LEVEL_TEXT = ("Seeded broad histories (incl. failing calls, comparison "
              "faults, set algebra and operators, conflict merges, range "
              "sequences, pickling, commits / aborts / evictions) on "
              "object-keyed and object-valued families, 4 kinds, C "
              "implementation: exact reference ledger after every call "
              "(transient) or live-instance and baseline check at "
              "quiescence (stored); operands whose inspection raises "
              "(__class__, __iter__, __next__, items, __len__) must not "
              "crash; stored objects whose __del__ looks at the (transient) "
              "container again while an operation releases them must find "
              "it sound (_check()) and must not touch freed memory; lazy "
              "sequences held open ACROSS mutations and probed again (ledger "
              "paused until they are closed); the same "
              "plans on the ASan+UBSan build with assertions. Sampling.")

OBJ_FAMS = [f for f in FAMILIES if f != "fs" and (f[0] == "O" or f[1] == "O")]
# read-only operations (they cannot leave the container half changed)
LOAD_FAIL_OPS = ("get", "getd", "getitem", "in", "has_key", "len", "bool",
                 "iter", "keys", "values", "items", "minKey", "maxKey",
                 "range", "mod", "binop", "isdisjoint", "pickle", "copy",
                 "sgetitem", "seqopen")


def plan(rng, tier):
    fam = rng.choice(OBJ_FAMS)
    nat = rng.random() < 0.05
    if nat:
        # the memory half of the property has no object in it: the fs
        # family's native vectors and their packed form (toBytes / fromBytes)
        fam = "fs"
    hk = fam[0] == "O" and rng.random() < 0.6
    cfg = common.draw_cfg(rng, fams=[fam], impls=("c",), hk=hk,
                          p_stored=0.3, p_default_sizes=0.03,
                          kinds=["Bucket", "Bucket", "BTree"] if nat
                          else None)
    if cfg["internal"] == 2 and rng.random() < 0.7:
        cfg["internal"] = rng.choice([3, 4])
    cfg["dom"]["nk"] = rng.choice([8, 12, 16, 24, 32])
    cfg["dom"]["none"] = False
    if hk:
        cfg["dom"]["ext"] = False
    if fam[1] == "O":
        cfg["dom"]["vflavor"] = rng.choice(["tv", "tv", "str"])
        cfg["dom"]["vnone"] = False
    if cfg["leaf"] is None and is_tree(cfg["kind"]):
        cfg["dom"]["nk"] = rng.choice([100, 200])
        cfg["dom"]["ext"] = False
    dom = Domain(cfg["dom"])
    kind = cfg["kind"]
    mapping = is_mapping(kind)
    g = common.Gen(rng, dom, kind)
    g.p_bad = 0.05
    out = list(g.fill(rng.randint(0, dom.nkeys)))
    if cfg["stored"]:
        out.append(["commit"])
    from . import ranges, twin
    meths = ranges.MAP_METHS if mapping else ranges.SET_METHS
    n = rng.randint(30, 90) if tier == "quick" else rng.choice([60, 120, 250])
    slots = 0
    # "hold" runs: lazy sequences stay open ACROSS mutations and go on being
    # probed (what they answer is C15's business; here the memory they read
    # counts); the per-call ledger pauses while a sequence that was mutated
    # under is open (it may own leaves the tree has dropped) and is
    # evaluated again when the sequences are closed
    hold = rng.random() < 0.3
    # finalizer re-entry: fresh objects with a __del__ that reads the
    # container are stored where nothing else references them, so they die
    # inside the operation that drops them
    # (transient containers only: what a finalizer may observe while the
    # persistence machinery evicts or invalidates the very node it is
    # re-entering is not defined by `persistent` itself -- see DESIGN 10)
    fin = None
    if not cfg["stored"] and rng.random() < 0.45 and (
            (mapping and fam[1] == "O") or (fam[0] == "O" and hk)):
        fin = rng.choice(["len", "list", "contains", "get", "minmax",
                          "mixed", "mixed"])
    # reference cycles through the container (a stored value refers back to
    # it): only the cycle collector can release them
    cyc = (not cfg["stored"]) and mapping and fam[1] == "O" and \
        rng.random() < 0.3
    for _ in range(n):
        r = rng.random()
        if cyc and rng.random() < 0.06:
            out.append(["setcv", g.anykey()])
            continue
        if fin and r < 0.14:
            if mapping and fam[1] == "O" and (not (fam[0] == "O" and hk)
                                              or rng.random() < 0.6):
                op = ["setfv", g.anykey()]
            else:
                op = [rng.choice(["addfk", "addfk", "delfk"]),
                      rng.randrange(dom.nkeys)]
        elif r < 0.08:
            op = ranges._range_op(rng, g, meths)
        elif r < 0.12:
            b = ranges._bound(rng, g, allow_special=False)
            op = [rng.choice(["minKey", "maxKey"]), b]
        elif hold and slots and r < 0.05:
            op = ["seqclose"]
        elif hold and slots and 0.36 <= r < 0.52:
            op = ["seqprobe", rng.randrange(2),
                  rng.choice([["idx", rng.randint(-len(g.model.d) - 1,
                                                  len(g.model.d))],
                              ranges._probes(rng, len(g.model.d))[0]])]
        elif r < 0.16:
            op = ["seqopen", slots % 2] + ranges._range_op(rng, g, meths)[1:]
            if op[2].startswith("iter"):
                op[2] = op[2][4:]
            slots += 1
        elif r < 0.22 and slots:
            op = ["seqprobe", rng.randrange(2),
                  ranges._probes(rng, len(g.model.d))[0]]
        elif r < 0.30:
            op = twin._modfunc(rng, g, dom, kind)
        elif r < 0.36:
            ks = sorted(set(g.keylist(0, 6)))
            op = ["binop", rng.choice(["|", "&", "-"] if mapping
                                      else ["|", "&", "-", "^"]),
                  [rng.choice(["Set", "TreeSet", "Bucket", "BTree"]), ks,
                   [g.val() for _ in ks]]]
        elif r < 0.40:
            def st():
                return sorted(set(g.keylist(0, 5)))
            op = ["resolve", st(), st(), st(),
                  rng.choice([[0, 0, 0], [0, 0, 0], [1, 1, 1], [1, 2, 1],
                              [1, 1, 2], [0, 1, 0], [1, 0, 1]])]
        elif r < 0.42 and mapping:
            op = ["byValue", g.val()]
        elif r < 0.44:
            op = ["pickle", rng.randrange(6)]
        elif r < 0.47:
            op = ["copy", rng.choice(["copy", "deepcopy"])]
        elif r < 0.50:
            op = ["ctork", g.keylist(0, 8), rng.choice(["list", "sorted",
                                                       "gen"])]
        elif r < 0.53:
            # an operand that misbehaves when the extension inspects it
            op = ["hostile",
                  rng.choice(["union", "intersection", "difference", "|",
                              "&", "-", "update", "ctor", "ior", "iand",
                              "isub", "multiunion", "weightedUnion",
                              "weightedIntersection", "isdisjoint"]),
                  rng.randrange(2),
                  rng.choice(["class-raises", "iter-raises", "next-raises",
                              "items-raises", "len-raises", "py-twin",
                              "py-twin"]),
                  g.keylist(0, 5), rng.randrange(4)]
        else:
            if rng.random() < 0.3:
                g.phase = rng.choice(["grow", "mixed", "shrink"])
            op = g.op()
        if cfg["stored"] and op[0] in LOAD_FAIL_OPS and rng.random() < 0.3:
            # the storage fails to deliver a node in the middle of a
            # read-only operation (everything evicted right before it)
            op = ["@loadfail", rng.randint(1, 6),
                  rng.choice(["err", "poskey"]), op]
        elif cfg["stored"] and op[0] in MUTATING and rng.random() < 0.06:
            # ... or in the middle of a WRITE.  What is left of the
            # container then is not this property's business (a delete that
            # cannot load the neighbour it has to unlink through leaves the
            # tree damaged: C17's known finding), so the run ends here -- but
            # the error exits taken must not over-release or leak anything:
            # sanitizer and the ledger at quiescence
            op = ["@loadfail", rng.randint(1, 6),
                  rng.choice(["err", "poskey"]), op, "w"]
        elif slots and op[0] in MUTATING and rng.random() < 0.3:
            # a held lazy sequence is used once more right after this
            # mutation (what it answers is C15's business; here only the
            # memory it reads and the references it takes count)
            op = ["@thenprobe", rng.randrange(2),
                  ranges._probes(rng, len(g.model.d))[:3], op]
        elif hk and rng.random() < 0.12:
            op = ["@raise", rng.randrange(1 << 16), op]
        elif hk and cfg["stored"] and rng.random() < 0.25:
            # eviction requested while a key comparison of this operation is
            # running (pinned nodes must refuse it)
            op = ["@evict", rng.randrange(1 << 16), op]
        out.append(op)
        if cfg["stored"]:
            x = rng.random()
            if x < 0.12:
                out.append(["commit"])
            elif x < 0.16:
                out.append(["abort"])
            elif x < 0.30:
                out.append(["sweep", rng.choice(["minimize", "incrgc",
                                                 "some"]),
                            rng.randrange(1 << 16)])
    return {"cfg": cfg, "ops": out, "fin": fin, "hold": hold}


MUTATING = ("set", "del", "pop", "popd", "popitem", "update", "clear", "add",
            "remove", "discard", "spop", "supdate", "ior", "iand", "isub",
            "ixor", "setdefault", "insert", "sinsert")


def simplify(plan):
    if plan.get("hold"):
        p = copy.deepcopy(plan)
        p["hold"] = False
        yield p
    for i, o in enumerate(plan["ops"]):
        if o[0] == "@thenprobe":
            p = copy.deepcopy(plan)
            p["ops"][i] = o[3]
            yield p
    if plan.get("fin"):
        p = copy.deepcopy(plan)
        p["fin"] = None
        p["ops"] = [o for o in p["ops"]
                    if o[0] not in ("setfv", "addfk", "delfk")]
        yield p
    if plan["cfg"]["stored"]:
        p = copy.deepcopy(plan)
        p["cfg"]["stored"] = False
        p["ops"] = [o for o in p["ops"]
                    if o[0] not in ("commit", "abort", "sweep")]
        yield p
    for i, o in enumerate(plan["ops"]):
        if o[0] in ("@raise", "@evict"):
            p = copy.deepcopy(plan)
            p["ops"][i] = o[2]
            yield p
        if o[0] == "@loadfail":
            p = copy.deepcopy(plan)
            p["ops"][i] = o[3]
            yield p


# ---------------------------------------------------------------------------

def _raise():
    raise keys.SimCompareError("injected")


def _tracked(dom):
    out = []
    for o in list(dom.keys) + list(dom.vals):
        if isinstance(o, (int, float, bool, bytes)) or o is None:
            continue
        out.append(o)
    return out


class HostileError(Exception):
    pass


def _hostile(how, ks, after):
    """an operand whose inspection raises HostileError at a chosen point"""
    def boom(*a):
        raise HostileError(how)

    def it(self):
        if how == "iter-raises":
            raise HostileError(how)
        for i, k in enumerate(ks):
            if how == "next-raises" and i >= after:
                raise HostileError(how)
            yield k
        if how == "next-raises":
            raise HostileError(how)
    ns = {"__iter__": it}
    if how == "class-raises":
        ns["__class__"] = property(boom)
    if how == "items-raises":
        ns["items"] = boom
    if how == "len-raises":
        ns["__len__"] = boom
        ns["__getitem__"] = boom
    return type("H", (object,), ns)()


def _do_hostile(c, op, dom, kind):
    _, what, pos, how, kidx, after = op
    if how == "py-twin":
        # a container of the PURE-PYTHON implementation handed to the C
        # functions: isinstance() says it is an OOSet (the *Py classes
        # answer __class__ with the C class), its memory layout is not
        pk = ("Set", "TreeSet", "Bucket", "BTree")[after % 4]
        ks_ = sorted(set(kidx))
        if pk in ("Set", "TreeSet"):
            h = dom.cls(pk, "py")([dom.key(k) for k in ks_])
        else:
            h = dom.cls(pk, "py")([(dom.key(k), dom.val(0)) for k in ks_])
    else:
        h = _hostile(how, [dom.key(k) for k in kidx], after)
    mod = dom.mod
    a, b = (h, c) if pos == 0 else (c, h)
    if what in ("union", "intersection", "difference"):
        r = getattr(mod, what)(a, b)
    elif what in ("weightedUnion", "weightedIntersection"):
        f = getattr(mod, what, None)
        if f is None:
            return
        r = f(a, b)
    elif what == "multiunion":
        f = getattr(mod, "multiunion", None)
        if f is None:
            return
        r = f([c, h] if pos else [h, c])
    elif what == "|":
        r = c | h
    elif what == "&":
        r = c & h
    elif what == "-":
        r = c - h
    elif what == "update":
        r = c.update(h)
    elif what == "ctor":
        r = type(c)(h)
    elif what == "isdisjoint":
        if not hasattr(c, "isdisjoint"):
            return
        r = c.isdisjoint(h)
    else:
        if is_mapping(kind):
            return
        if what == "ior":
            c |= h
        elif what == "iand":
            c &= h
        else:
            c -= h
        r = None
    if r is not None and hasattr(r, "__len__"):
        len(r)


def _do(c, op, dom, kind, seqs, live):
    """-> outcome class (no references to keys/values are returned)"""
    name = op[0]
    mapping = is_mapping(kind)
    try:
        if name == "seqopen":
            q = ["seq"] + op[2:]
            r = ops.call_range(c, q, dom)
            if is_tree(kind):
                # (a leaf's keys() is a plain list, i.e. references of ours)
                seqs[op[1]] = r
            return "ok"
        if name == "seqprobe":
            from . import ranges
            seq = seqs.get(op[1])
            if seq is None:
                return "ok"
            r = ranges._run_probe(seq, op[2])
            return r[1] if r[0] == "exc" else "ok"
        if name == "mod":
            from . import twin
            r = twin._apply_mod(c, op, dom, "c")
            return r[1] if r[0] == "exc" else "ok"
        if name == "binop":
            from . import twin
            other = twin._build_operand(op[2], c, dom, "c")
            if op[1] == "|":
                r = c | other
            elif op[1] == "&":
                r = c & other
            elif op[1] == "^":
                r = c ^ other
            else:
                r = c - other
            len(r)
            return "ok"
        if name == "setcv":
            v = keys.CV(op[1])
            v.back = c
            c[dom.key(op[1])] = v
            v = None
            return "ok"
        if name == "setfv":
            # (the FV is referenced by the container only)
            c[dom.key(op[1])] = keys.FV(op[1])
            return "ok"
        if name in ("addfk", "delfk"):
            k = keys.FK(op[1] + 0.5)
            if is_mapping(kind):
                if name == "addfk":
                    c[k] = dom.val(0)
                else:
                    c.pop(k, None)
            elif name == "addfk":
                c.add(k)
            else:
                c.discard(k)
            return "ok"
        if name == "hostile":
            try:
                _do_hostile(c, op, dom, kind)
            finally:
                # (an exception a C function left set although it returned
                # normally would surface at some later call)
                ops._FLUSH()
            return "ok"
        if name in ("resolve", "ctork"):
            r = cmpfault._do({"cfg": {"kind": kind, "impl": "c"}, "op": op},
                             dom, c, [])
            return r[1] if r[0] == "exc" else "ok"
        if name == "pickle":
            new = pickle.loads(pickle.dumps(c, op[1]))
            len(new)
            return "ok"
        if name == "copy":
            new = copy.copy(c) if op[1] == "copy" else copy.deepcopy(c)
            len(new)
            return "ok"
        r = ops.apply(c, op, dom, "c", kind)
        return r[1] if r[0] == "exc" else "ok"
    except Exception as e:
        return type(e).__name__


def _ledger(tracked, baseline, live, dom, sig, what):
    occ = cmpfault._occurrences(live, dom, None)
    bad = None
    for o in tracked:
        if sys.getrefcount(o) != baseline[id(o)] + occ.get(id(o), 0):
            bad = o
            break
    if bad is None:
        return
    bad = None
    gc.collect()
    occ = cmpfault._occurrences(live, dom, None)
    for o in tracked:
        want = baseline[id(o)] + occ.get(id(o), 0)
        have = sys.getrefcount(o)
        if have != want:
            raise Violation(
                dict(sig, oracle="ledger",
                     what="leak" if have > want else "over-release",
                     obj=type(o).__name__),
                "%s: %r has refcount %d, expected %d (baseline %d + %d "
                "slots)" % (what, o, have, want, baseline[id(o)],
                            occ.get(id(o), 0)))


def execute(plan, ctx):
    from .. import env
    cfg = plan["cfg"]
    env.activate(ctx.variant)
    dom = Domain(cfg["dom"])
    dom.set_node_sizes(cfg.get("leaf"), cfg.get("internal"))
    kind = cfg["kind"]
    mapping = is_mapping(kind)
    stored = cfg.get("stored")
    tracked = _tracked(dom)
    hook = keys.HOOK
    hook.reset()
    gc.collect()
    baseline = {id(o): sys.getrefcount(o) for o in tracked}
    hk0, tv0 = keys.HK.live, keys.TV.live
    famc = common.fam_class(dom.fam)
    base = {"kind": kind, "fam": famc, "stored": bool(stored)}
    conn = None
    c = dom.new(kind, "c")
    if stored:
        from ..world import SimStorage, SimConnection
        conn = SimConnection(SimStorage(cfg.get("protocol", 3)), "c")
        conn.add(c)
    seqs = {}
    hold = bool(plan.get("hold"))
    dirty = False
    live = [(c, mapping)]
    fin = plan.get("fin")
    fv0, fk0 = keys.FV.live, keys.FK.live
    keys.FINAL.fired = 0
    keys.FINAL.notes = []
    if fin:
        box = [c]

        def _reenter(obj, box=box, fin=fin):
            cc = box[0]
            if cc is None:
                return
            if is_tree(kind):
                # the package's own checker first: it reads defensively,
                # whereas searches assume a sound tree (no empty leaf) and
                # would leave defined behaviour on a tree that is not
                try:
                    cc._check()
                except AssertionError as e:
                    keys.FINAL.notes.append(str(e)[:60])
                    return
            act = fin
            if act == "mixed":
                act = ("len", "list", "contains", "get", "minmax")[
                    int(obj.n * 2) % 5]
            probe = dom.key(int(obj.n) % dom.nkeys)
            if act == "len":
                len(cc)
                bool(cc)
            elif act == "list":
                list(cc.items() if mapping else cc.keys())
            elif act == "contains":
                probe in cc
            elif act == "get":
                if mapping:
                    cc.get(probe)
                else:
                    cc.has_key(probe)
            else:
                try:
                    cc.minKey()
                    cc.maxKey(probe)
                except ValueError:
                    pass
        keys.FINAL.action = _reenter
    try:
        for op0 in plan["ops"]:
            name = op0[0]
            if name in ("commit", "abort", "sweep"):
                if conn is None:
                    continue
                if name == "commit":
                    conn.commit()
                    if conn.hazards:
                        raise Precondition("known C04 finding")
                elif name == "abort":
                    seqs.clear()
                    conn.abort()
                else:
                    if op0[1] == "some":
                        nodes = conn.nodes()
                        conn.sweep("deactivate", set(
                            o._p_oid for j, o in enumerate(nodes)
                            if (op0[2] >> (j % 16)) & 1))
                    elif op0[1] == "incrgc":
                        conn.sweep("incrgc", 1 + op0[2] % 4)
                    else:
                        conn.sweep("minimize")
                    ctx.fault("evict-between")
                ctx.ev(name)
                continue
            if name == "seqclose":
                seqs.clear()
                if dirty and not stored:
                    dirty = False
                    _ledger(tracked, baseline, live, dom,
                            dict(base, op="seqclose", outcome="ok"),
                            "after closing the held sequences")
                dirty = False
                continue
            op = op0
            fault = None
            thenprobe = None
            if name == "@thenprobe":
                thenprobe = op0
                op = op0[3]
                name = op[0]
            if name == "@raise":
                op = op0[2]
                fault = op0[1]
            if fault is not None:
                hook.arm(1 + fault % 7, _raise)
            if name == "@loadfail":
                op = op0[3]
                if conn is not None:
                    from ..world import SimLoadError, SimPOSKeyError
                    seqs.clear()
                    conn.sweep("minimize")
                    conn.load_fault_exc = SimPOSKeyError \
                        if op0[2] == "poskey" else SimLoadError
                    conn.load_fault = op0[1]
            if name == "@evict":
                op = op0[2]
                if conn is not None:
                    def _sweep(conn=conn):
                        for o in conn.nodes():
                            o._p_deactivate()
                    hook.arm(1 + op0[1] % 6, _sweep)
            out = _do(c, op, dom, kind, seqs, live)
            fired = hook.fired
            hook.disarm()
            if thenprobe is not None:
                sq = seqs.get(thenprobe[1])
                if sq is not None:
                    for pr in thenprobe[2]:
                        ranges._run_probe(sq, pr)
                    ctx.fault("mutate-under-cursor")
                sq = None
            if name == "@loadfail" and conn is not None:
                lf_fired = conn.load_fault is None
                if lf_fired:
                    ctx.fault("load-fail")
                conn.load_fault = None
                if lf_fired and len(op0) > 4:
                    ctx.fault("load-fail-in-write")
                    ctx.ev("load-fail-in-write", op[0], out)
                    break
            if fired:
                ctx.fault("cmp-raise" if name == "@raise"
                          else "evict-in-compare")
            opn = op[0] if op[0] != "mod" else op[1]
            if opn == "binop":
                opn = "op" + op[1]
            if keys.FINAL.notes:
                note = keys.FINAL.notes[0]
                keys.FINAL.notes = []
                raise Violation(
                    dict(base, oracle="reentry-unsound", op=opn,
                         saw=note.split(":")[0][:40]),
                    "a stored object released inside %r ran its __del__, "
                    "which looked at the container again and found it "
                    "damaged: _check() -> %s" % (op, note))
            if opn == "hostile":
                opn = "hostile:%s:%s" % (op[1], op[3])
                ctx.fault("hostile-operand")
            ctx.ev(opn, out)
            if opn in ("set", "del", "pop", "popd", "popitem", "update",
                       "clear", "add", "remove", "discard", "spop",
                       "supdate", "ior", "iand", "isub", "ixor",
                       "setdefault", "insert", "sinsert") or (
                    op[0] == "hostile" and op[1] in ("update", "ior", "iand",
                                                     "isub")):
                # a held lazy sequence keeps leaves alive; after a mutation
                # those may be leaves the tree no longer owns -- close them
                # so that the ledger's walk sees every live slot
                if hold and seqs:
                    dirty = True
                    ctx.fault("mutate-under-cursor")
                else:
                    seqs.clear()
            if not stored and not dirty:
                _ledger(tracked, baseline, live, dom,
                        dict(base, op=opn, outcome=out),
                        "after %r -> %s" % (op, out))
            ctx.nontriv((kind, famc, bool(stored), opn, out))
            ctx.interleaving((opn, out, bool(fired)))
        # ---- quiescence
        if fin:
            if keys.FINAL.fired:
                ctx.fault("finalizer-reentry", keys.FINAL.fired)
            box[0] = None       # (never touch a container being torn down)
        seqs.clear()
        live = None
        c = None
        if conn is not None:
            conn.abort()
            conn._cache.minimize()
            conn.close()
            conn._cache = None
            conn = None
        gc.collect()
        sig = dict(base, oracle="quiescence")
        for o in tracked:
            have = sys.getrefcount(o)
            if have != baseline[id(o)]:
                raise Violation(
                    dict(sig, what="leak" if have > baseline[id(o)]
                         else "over-release", obj=type(o).__name__),
                    "after dropping every container, cache and connection "
                    "%r has refcount %d, baseline %d" % (
                        o, have, baseline[id(o)]))
        if keys.HK.live != hk0 or keys.TV.live != tv0:
            raise Violation(
                dict(sig, what="live-instances",
                     obj="HK" if keys.HK.live != hk0 else "TV"),
                "at quiescence %d HK and %d TV instances are alive, %d and "
                "%d expected (objects created by loads or copies were never "
                "released)" % (keys.HK.live, keys.TV.live, hk0, tv0))
        if keys.FV.live != fv0 or keys.FK.live != fk0:
            raise Violation(
                dict(sig, what="live-instances",
                     obj="FV" if keys.FV.live != fv0 else "FK"),
                "at quiescence %d FV and %d FK instances are alive, %d and "
                "%d expected" % (keys.FV.live, keys.FK.live, fv0, fk0))
    finally:
        hook.reset()
        keys.FINAL.action = None

"""Helpers shared by the scenarios: configuration drawing, history
generation (the planner tracks a model while it plans so that present/missing
keys can be chosen on purpose), container set-up, structural checks."""
from .. import domains, ops, walker
from ..core import Violation, Precondition
from ..domains import Domain, is_mapping, is_tree


def draw_cfg(rng, fams=None, kinds=None, impls=("c", "py"), hk=False,
             p_stored=0.3, p_default_sizes=0.1, p_sub=0.0):
    fam = rng.choice(fams or domains.FAMILIES)
    kind = rng.choice(kinds or domains.KINDS)
    leaf, internal = domains.draw_sizes(rng, p_default_sizes)
    cfg = {"dom": domains.draw_domain_cfg(rng, fam, hk=hk),
           "kind": kind,
           "impl": rng.choice(list(impls)),
           "leaf": leaf, "internal": internal,
           "stored": rng.random() < p_stored,
           "protocol": rng.choice([1, 2, 3, 3, 4, 5])}
    if p_sub and rng.random() < p_sub:
        # the container is an instance of a trivial user subclass of the
        # package's class (its interior nodes too; its leaves are not)
        # ... or, for half of the trees, a subclass that also names a leaf
        # class of its own (`_bucket_type`)
        cfg["dom"]["sub"] = "leaf" if (is_tree(kind) and
                                       rng.random() < 0.5) else True
    return cfg


# ---------------------------------------------------------------------------
# history generation

MAP_W = [("set", 30), ("del", 14), ("insert", 5), ("setdefault", 5),
         ("pop", 5), ("popd", 3), ("popitem", 2), ("update", 4),
         ("clear", 0.5), ("get", 3), ("getd", 2), ("getitem", 4), ("in", 3),
         ("has_key", 2), ("len", 1), ("bool", 1), ("iter", 1), ("items", 1),
         ("keys", 0.5), ("values", 0.5), ("ctor", 1)]
SET_W = [("add", 30), ("sinsert", 5), ("remove", 14), ("discard", 6),
         ("spop", 3), ("supdate", 4), ("clear", 0.5), ("ior", 2),
         ("iand", 1.5), ("isub", 2), ("ixor", 2), ("in", 4), ("has_key", 2),
         ("len", 1), ("bool", 1), ("iter", 1), ("keys", 1), ("sgetitem", 2),
         ("isdisjoint", 1), ("ctor", 1)]


class Gen(object):
    """plans operations while tracking the model (index space)"""

    def __init__(self, rng, dom, kind):
        self.rng = rng
        self.dom = dom
        self.kind = kind
        self.mapping = is_mapping(kind)
        self.model = ops.Model(dom, kind)
        self.table = MAP_W if self.mapping else SET_W
        self.phase = "mixed"
        self.p_bad = 0.0
        # byValue(min) among the calls (a READ: whatever it answers -- C09
        # says why the answer is not compared -- nothing may change)
        self.p_byvalue = 0.0
        self.p_fsbytes = 0.04 if (dom.fam == "fs" and kind == "Bucket") \
            else 0.0

    def present(self):
        ks = self.model.skeys()
        return self.rng.choice(ks) if ks else None

    def absent(self):
        n = self.dom.nkeys
        d = self.model.d
        for _ in range(8):
            k = self.rng.randrange(n)
            if k not in d:
                return k
        return None

    def anykey(self):
        return self.rng.randrange(self.dom.nkeys)

    def key_for(self, want_present, p_wrong=0.12):
        rng = self.rng
        if rng.random() < p_wrong:
            want_present = not want_present
        k = self.present() if want_present else self.absent()
        if k is None:
            k = self.anykey()
        return k

    def val(self):
        return self.rng.randrange(self.dom.nvals)

    def keylist(self, lo=0, hi=5):
        rng = self.rng
        n = rng.randint(lo, hi)
        out = []
        for _ in range(n):
            out.append(self.key_for(rng.random() < 0.5, 0))
        return out

    def pick_name(self):
        rng = self.rng
        table = self.table
        if self.phase == "grow" and rng.random() < 0.7:
            return "set" if self.mapping else "add"
        if self.phase == "shrink" and rng.random() < 0.7:
            return rng.choice(["del", "pop"] if self.mapping
                              else ["remove", "discard"])
        tot = sum(w for _, w in table)
        x = rng.random() * tot
        for name, w in table:
            x -= w
            if x <= 0:
                return name
        return table[0][0]

    def bad_write(self):
        """a write with an unusable key or value (must raise TypeError and
        change nothing); never `insert` (see C09 findings)"""
        rng = self.rng
        fam = self.dom.fam
        bk = ops.bad_key_spec(fam)
        bv = ops.bad_value_spec(fam)
        if self.mapping:
            name = rng.choice(["set", "set", "setdefault", "update"])
            if bv is not None and rng.random() < 0.6:
                k, v = self.key_for(rng.random() < 0.3, 0), bv
                if name == "setdefault":
                    # with a present key the default is not looked at
                    # (C) or rejected (Python): outside this model
                    k = self.absent()
                    if k is None:
                        name = "set"
                        k = self.anykey()
            else:
                k, v = bk, self.val()
            if name == "update":
                # (only the bad pair: a failing multi-key update may
                # legitimately keep the pairs before it)
                return [name, [[k, v]], "list"]
            return [name, k, v]
        name = rng.choice(["add", "add", "supdate"])
        if name == "supdate":
            return [name, [bk], "list"]
        return [name, bk]

    def op(self):
        rng = self.rng
        if self.p_bad and rng.random() < self.p_bad:
            op = self.bad_write()
            self.model.apply(op)
            return op
        if self.p_fsbytes and rng.random() < self.p_fsbytes:
            # fs family: the packed form of a Bucket (toBytes / fromBytes)
            ks = sorted(set(self.keylist(0, 6)))
            op = [rng.choice(["fsrt", "fsrt", "fsload"]),
                  [[k, self.val()] for k in ks]]
            if op[0] == "fsrt" and rng.random() < 0.5:
                # enough new entries to outgrow whatever was allocated
                free = [k for k in range(self.dom.nkeys)
                        if k not in self.model.d]
                op[1] = [[k, self.val()] for k in free]
            self.model.apply(op)
            return op
        if self.p_byvalue and self.mapping and rng.random() < self.p_byvalue:
            op = ["byValue", self.val()]
            self.model.apply(op)
            return op
        while True:
            name = self.pick_name()
            if name == "insert" and self.kind != "BTree":
                continue
            if name == "sgetitem" and self.kind != "Set":
                continue
            break
        if name in ("set", "setdefault", "insert"):
            grow = self.phase != "shrink"
            op = [name, self.key_for(not grow and rng.random() < 0.5
                                     or rng.random() < 0.3, 0), self.val()]
        elif name in ("del", "pop", "remove", "getitem"):
            op = [name, self.key_for(True)]
        elif name == "popd":
            op = [name, self.key_for(rng.random() < 0.6, 0), self.val()]
        elif name in ("popitem", "clear", "len", "bool", "iter", "items",
                      "keys", "values", "spop"):
            op = [name]
        elif name == "update":
            pairs = [[k, self.val()] for k in self.keylist(0, 5)]
            op = [name, pairs, rng.choice(["list", "dict", "gen", "Bucket",
                                           "BTree"])]
        elif name in ("get", "in", "has_key", "discard"):
            op = [name, self.key_for(rng.random() < 0.6, 0)]
        elif name == "getd":
            op = [name, self.key_for(rng.random() < 0.5, 0), self.val()]
        elif name in ("add", "sinsert"):
            op = [name, self.key_for(rng.random() < 0.25, 0)]
        elif name == "supdate":
            op = [name, self.keylist(0, 5),
                  rng.choice(["list", "tuple", "gen", "pyset", "Set",
                              "TreeSet"])]
        elif name in ("ior", "iand", "isub", "ixor"):
            form = rng.choice(["list", "tuple", "gen", "pyset", "Set",
                               "TreeSet", "sorted", "self"])
            ks = self.keylist(0, 6)
            if form in ("Set", "TreeSet", "pyset"):
                ks = sorted(set(ks))
            if name == "ixor":
                # both implementations toggle per element, so a duplicate in
                # a plain iterable cancels itself; the reference model uses
                # set semantics, which is only defined for duplicate-free
                # operands -- keep them duplicate-free
                ks = list(dict.fromkeys(ks))
            op = [name, ks, form]
        elif name == "ctor":
            if self.mapping:
                op = [name, [[k, self.val()] for k in self.keylist(0, 8)],
                      rng.choice(["list", "dict", "gen", "Bucket", "BTree"])]
            else:
                op = [name, self.keylist(0, 8),
                      rng.choice(["list", "tuple", "gen", "pyset", "Set",
                                  "TreeSet"])]
        elif name == "sgetitem":
            n = len(self.model.d)
            op = [name, rng.randint(-n - 1, n)]
        elif name == "isdisjoint":
            op = [name, self.keylist(0, 4), rng.choice(["list", "Set",
                                                        "TreeSet", "self"])]
        else:
            raise ValueError(name)
        self.model.apply(op)
        return op

    def history(self, n, phases=True):
        rng = self.rng
        out = []
        left = n
        while left > 0:
            if phases:
                self.phase = rng.choice(["grow", "grow", "mixed", "shrink",
                                         "mixed"])
            seg = min(left, rng.randint(3, 25))
            if self.phase == "shrink" and rng.random() < 0.4:
                # delete a run of adjacent keys: empties whole leaves
                ks = self.model.skeys()
                if ks:
                    a = rng.randrange(len(ks))
                    run = ks[a:a + seg]
                    for k in run:
                        op = ["del" if self.mapping else "remove", k]
                        self.model.apply(op)
                        out.append(op)
                    left -= len(run)
                    continue
            for _ in range(seg):
                out.append(self.op())
            left -= seg
        return out

    def fill(self, n):
        """insert up to n distinct keys (random order): builds a shape"""
        rng = self.rng
        out = []
        ks = list(range(self.dom.nkeys))
        rng.shuffle(ks)
        for k in ks[:n]:
            op = ["set", k, self.val()] if self.mapping else ["add", k]
            self.model.apply(op)
            out.append(op)
        return out


# ---------------------------------------------------------------------------
# execution helpers

def setup(cfg, variant):
    """-> (dom, container, conn or None)"""
    from .. import env
    env.activate(variant)
    dom = Domain(cfg["dom"])
    if is_tree(cfg["kind"]) or True:
        dom.set_node_sizes(cfg.get("leaf"), cfg.get("internal"))
    c = dom.new(cfg["kind"], cfg["impl"])
    conn = None
    if cfg.get("stored"):
        from ..world import SimStorage, SimConnection
        st = SimStorage(cfg.get("protocol", 3))
        conn = SimConnection(st, cfg["impl"])
        conn.add(c)
    return dom, c, conn


def sizes(cfg):
    if cfg.get("leaf") is None:
        return domains.default_sizes(cfg["dom"]["fam"])
    return cfg["leaf"], cfg["internal"]


def structural(c, dom, cfg, ctx, model_listing=None, check_sizes=True,
               use_check_module=True, who="c"):
    """_check(), check.check(), independent walker.  Raises Violation."""
    kind = cfg["kind"]
    if not is_tree(kind):
        return None
    base = {"impl": cfg["impl"], "kind": kind}
    try:
        c._check()
    except AssertionError as e:
        raise Violation(dict(base, oracle="_check"), "%s: _check(): %s" % (
            who, e))
    if use_check_module and type(c).__module__.startswith("BTrees."):
        # (check.check() refuses subclasses by design)
        from BTrees import check as checkmod
        try:
            checkmod.check(c)
        except AssertionError as e:
            raise Violation(dict(base, oracle="check.check"),
                            "%s: check(): %s" % (who, str(e)[:300]))
    leaf, internal = sizes(cfg)
    w = walker.walk(c, dom, is_mapping(kind),
                    leaf if check_sizes else None,
                    internal if check_sizes else None)
    if w.problems:
        raise Violation(dict(base, oracle="walker",
                             problem=sorted(set(w.problems))[0]),
                        "%s: walker: %s shape=%r" % (
                            who, sorted(set(w.problems)), w.shape))
    if model_listing is not None:
        got = w.items if is_mapping(kind) else w.keys
        if not ops.same_value(list(got), list(model_listing)):
            raise Violation(dict(base, oracle="walker-contents"),
                            "%s: chain walk lists %r, expected %r" % (
                                who, got[:20], model_listing[:20]))
    if ctx is not None:
        ctx.shape(w.shape)
    return w


def fam_class(fam):
    return fam[0] + fam[1] if fam != "fs" else "fs"


def commit(conn, ctx, **kw):
    """commit; a run in which the known stored-state defect of C04
    ("inline-duplicate", see known_findings.json) has fired is abandoned for
    every property but C04 -- what it would observe from then on is the
    damage that finding describes, not its own property."""
    r = conn.commit(**kw)
    if conn.hazards:
        if ctx is not None:
            ctx.probe("abandoned:known-C04-inline-duplicate")
        raise Precondition("known C04 finding: " + conn.hazards[0][0])
    return r


def sweep(conn, op, ctx):
    """["sweep", "minimize" | "some" | "incrgc", mask]: the evict-between
    fault; -> number of nodes that really became ghosts"""
    if op[1] == "some":
        nodes = conn.nodes()
        pick = set(o._p_oid for j, o in enumerate(nodes)
                   if (op[2] >> (j % 16)) & 1)
        n = conn.sweep("deactivate", pick)
    elif op[1] == "incrgc":
        n = conn.sweep("incrgc", 1 + op[2] % 4)
    else:
        n = conn.sweep("minimize")
    if n and ctx is not None:
        ctx.fault("evict-between", n)
    return n

"""C07 -- leaf conflict resolution is an exact three-way merge or a refusal.

The triple (old, committed, new) is produced the way it arises in a
deployment: a leaf -- a stored Bucket/Set, a BTree/TreeSet made of one
embedded leaf, or a leaf inside a multi-leaf tree (successor links!) -- is
committed; clients A and B, from the same snapshot, each apply a few edits;
the scheduler picks the commit order (both orders are run); the second commit
reaches the storage's *resolver seam*, which records (class, old, committed,
new, outcome).

Oracle at the seam: an executable specification written from the property
statement (merge_spec below), independent of either implementation:
  * decision (merged state or refusal) equals the specification's;
  * a merged state equals the specification's state exactly;
  * a refusal is a BTreesConflictError whose reason code lies in the class
    the specification allows (0 successor changed, 11 multi-leaf tree state,
    12 a side emptied the leaf, 13 a side removed its smallest key, 1-9 the
    change sets overlap, 10 empty result);
  * the other implementation, called directly with the same three states,
    takes the same decision with the same reason code and the same state.
Malformed state shapes do not arise from histories; a small fixed set is
injected directly: both implementations must raise (never return a state,
never crash) and raise the same exception class.
"""
import copy

from .. import ops
from ..core import Violation, Precondition
from ..domains import Domain, is_mapping, is_tree
from . import common

PROP = "C07"
SHRINK = [["base"], ["a"], ["b"]]
BUDGET = {"quick": {"plain": 40000, "max_s": 100},
          "thorough": {"plain": 1500000, "max_s": 1500}}
RULE = ("one run = one committed leaf (root Bucket/Set, single-leaf "
        "BTree/TreeSet, or multi-leaf tree) + two concurrent edit lists, "
        "committed in both orders through the simulated storage; every "
        "resolver call is compared with the executable merge specification "
        "and with the other implementation; distinct non-trivial = distinct "
        "(record class kind, family class, normalised (old, committed, new) "
        "key/value pattern, outcome) tuples seen at the resolver seam")
TECHNIQUE = ("deterministic simulation of two concurrent committers on one "
             "leaf with seeded commit order; resolver-seam refinement check "
             "against an executable three-way-merge specification, plus C "
             "vs Python agreement on decision, reason code and state")
LEVEL_TEXT = ("Seeded (old, committed, new) triples produced by two "
              "concurrent transactions on a stored leaf (all families, "
              "mapping and set leaves, embedded single-leaf trees, leaves "
              "of multi-leaf trees incl. successor-link changes, empty "
              "states), both commit orders, both implementations; every "
              "resolver call checked against an executable merge "
              "specification (decision, exact merged state, reason class) "
              "and against the other implementation (decision, reason "
              "code, state); fixed malformed states injected; triples in "
              "which a side wrote its node back unaltered handed to the "
              "resolver directly (multi-leaf states must still be refused). "
              "Sampling.")

OVERLAP = frozenset(range(1, 10))


# ---------------------------------------------------------------------------
# the specification

class Refuse(Exception):
    def __init__(self, classes):
        self.classes = classes


def leaf_of_state(state, mapping, tree):
    """-> (dict or list of (key,value) in order, next) or raises Refuse"""
    if tree:
        if state is None:
            return [], None
        if len(state) == 2:
            raise Refuse({11})
        state = state[0][0]
    elif state is None:
        return [], None
    items = state[0]
    nxt = state[1] if len(state) > 1 else None
    if mapping:
        pairs = list(zip(items[0::2], items[1::2]))
    else:
        pairs = [(k, None) for k in items]
    return pairs, nxt


def _same_ref(a, b):
    if a is b:
        return True
    if a is None or b is None:
        return False
    return getattr(a, "oid", a) == getattr(b, "oid", b) and \
        type(a) is type(b)


def merge_spec(old, com, new, mapping, tree, sortkey, kid):
    """returns the merged state or raises Refuse(set of allowed reason
    codes).  Written from the property statement only."""
    classes = set()
    leaves = []
    for st in (old, com, new):
        try:
            leaves.append(leaf_of_state(st, mapping, tree))
        except Refuse as r:
            classes |= r.classes
    if classes:
        raise Refuse(classes)           # some state is a multi-leaf tree
    (o, onext), (c, cnext), (n, nnext) = leaves
    if not (_same_ref(onext, cnext) and _same_ref(onext, nnext)):
        raise Refuse({0})
    if not c or not n:
        raise Refuse({12})
    od = {kid(k): (k, v) for k, v in o}
    sides = []
    for side in (c, n):
        sd = {kid(k): (k, v) for k, v in side}
        ins = set(x for x in sd if x not in od)
        dele = set(x for x in od if x not in sd)
        chg = set(x for x in sd if x in od and
                  not ops.same_value(sd[x][1], od[x][1]))
        smallest = min(sortkey(k) for k, _ in side)
        if any(sortkey(od[x][0]) < smallest for x in dele):
            classes.add(13)
        sides.append((sd, ins, dele, chg))
    (cd, cins, cdel, cchg), (nd, nins, ndel, nchg) = sides
    if (cins | cdel | cchg) & (nins | ndel | nchg):
        classes |= OVERLAP
    if classes:
        raise Refuse(classes)
    res = {}
    for x, (k, v) in od.items():
        if x in cdel or x in ndel:
            continue
        if x in cchg:
            res[x] = cd[x]
        elif x in nchg:
            res[x] = nd[x]
        else:
            res[x] = (k, v)
    for x in cins:
        res[x] = cd[x]
    for x in nins:
        res[x] = nd[x]
    if not res:
        raise Refuse({10})
    pairs = sorted(res.values(), key=lambda kv: sortkey(kv[0]))
    if mapping:
        flat = []
        for k, v in pairs:
            flat.extend((k, v))
        items = tuple(flat)
    else:
        items = tuple(k for k, _ in pairs)
    st = (items, onext) if onext is not None else (items,)
    if tree:
        st = ((st,),)
    return st


def same_state(a, b):
    """structural equality of two states, PersistentReferences by oid"""
    if type(a) is not type(b) and not (
            isinstance(a, (tuple, list)) and isinstance(b, (tuple, list))):
        return False
    if isinstance(a, (tuple, list)):
        return len(a) == len(b) and all(same_state(x, y)
                                        for x, y in zip(a, b))
    if hasattr(a, "oid") and hasattr(b, "oid"):
        return a.oid == b.oid
    return ops.same_value(a, b)


# ---------------------------------------------------------------------------
# plan

def _edits(rng, nkeys, nvals, mapping, present):
    out = []
    n = rng.choice([0, 1, 1, 1, 2, 2, 3, 4, 5])
    for _ in range(n):
        r = rng.random()
        if r < 0.04:
            out.append(["delall"])
        elif r < 0.14:
            out.append(["delmin"])
        elif r < 0.2:
            out.append(["delmax"])
        elif r < 0.5:
            out.append(["del", rng.randrange(nkeys)])
        elif mapping:
            out.append(["set", rng.randrange(nkeys), rng.randrange(nvals)])
        else:
            out.append(["add", rng.randrange(nkeys)])
    return out


def plan(rng, tier):
    fam = rng.choice(common.domains.FAMILIES)
    kind = rng.choice(common.domains.KINDS)
    where = "root"
    if is_tree(kind):
        where = rng.choice(["single", "single", "multi"])
    nk = rng.choice([3, 4, 5, 6]) if where != "multi" else rng.choice(
        [6, 8, 10, 12])
    dcfg = common.domains.draw_domain_cfg(rng, fam)
    dcfg["nk"] = nk
    dcfg["nv"] = rng.choice([2, 3])
    dcfg["ext"] = rng.random() < 0.15
    if rng.random() < 0.15:
        # the stored object is an instance of a trivial user subclass
        # (half of the trees: one that also names a leaf class of its own)
        dcfg["sub"] = "leaf" if (is_tree(kind) and
                                 rng.random() < 0.5) else True
    cfg = {"dom": dcfg, "kind": kind, "impl": rng.choice(["c", "py"]),
           "where": where, "protocol": rng.choice([2, 3, 3, 4, 5])}
    if where == "single":
        # usually big enough never to split; sometimes small: a split makes
        # the state multi-leaf (refusal 11)
        cfg["leaf"], cfg["internal"] = rng.choice(
            [(12, 4), (12, 4), (12, 4), (3, 2), (4, 3)])
    elif where == "multi":
        cfg["leaf"], cfg["internal"] = rng.choice([(2, 3), (3, 3), (4, 4),
                                                   (3, 4)])
    else:
        cfg["leaf"], cfg["internal"] = None, None
    dom = Domain(dcfg)
    mapping = is_mapping(kind)
    nkeys, nvals = dom.nkeys, dom.nvals
    if where == "multi":
        base = [[k, rng.randrange(nvals)] for k in range(nkeys)
                if rng.random() < 0.8]
    else:
        base = [[k, rng.randrange(nvals)] for k in range(nkeys)
                if rng.random() < 0.55]
    present = [k for k, _ in base]
    return {"cfg": cfg, "base": base,
            "a": _edits(rng, nkeys, nvals, mapping, present),
            "b": _edits(rng, nkeys, nvals, mapping, present),
            "malformed": rng.randrange(40) if rng.random() < 0.08 else None,
            # triples in which one side (or both) wrote its node back
            # unaltered, handed to the resolver directly
            "degenerate": rng.random() < 0.3}


def simplify(plan):
    cfg = plan["cfg"]
    if cfg["where"] == "single" and cfg["leaf"] != 12:
        p = copy.deepcopy(plan)
        p["cfg"]["leaf"], p["cfg"]["internal"] = 12, 4
        yield p
    if plan.get("malformed") is not None:
        p = copy.deepcopy(plan)
        p["malformed"] = None
        yield p


# ---------------------------------------------------------------------------

def _apply_edits(c, edits, dom, mapping):
    for e in edits:
        name = e[0]
        try:
            if name == "set":
                c[dom.key(e[1])] = dom.val(e[2])
            elif name == "add":
                c.add(dom.key(e[1]))
            elif name == "del":
                k = dom.key(e[1])
                if mapping:
                    del c[k]
                else:
                    c.remove(k)
            elif name == "delall":
                c.clear()
            elif name in ("delmin", "delmax"):
                k = c.minKey() if name == "delmin" else c.maxKey()
                if mapping:
                    del c[k]
                else:
                    c.remove(k)
        except (KeyError, ValueError, IndexError):
            pass        # missing key / empty container: the edit is a no-op


def _pattern(dom, mapping, tree, states):
    """normalised key/value pattern of a triple, for coverage counting"""
    out = []
    for st in states:
        try:
            pairs, nxt = leaf_of_state(st, mapping, tree)
        except Refuse:
            out.append("multi")
            continue
        out.append((tuple((dom.index_of(k), dom.vid(v)) for k, v in pairs),
                    None if nxt is None else "ref"))
    return tuple(out)


def _outcome_of(fn):
    """-> ("ok", state) | ("conflict", reason) | ("exc", classname)"""
    from BTrees.Interfaces import BTreesConflictError
    try:
        return ("ok", fn())
    except BTreesConflictError as e:
        return ("conflict", e.reason)
    except Exception as e:
        return ("exc", type(e).__name__)


def _check_rec(rec, dom, cfg, ctx):
    name = rec.get("cls")
    if name is not None and rec.get("mod") == "sim.subcls":
        # Sub_OOBTree: a trivial user subclass; CL_OOBTree / CLeaf_OOBucket:
        # a tree class that names its own leaf class, and that leaf class
        name = name.split("_", 1)[1]
        ctx.probe("seam-subclass")
    elif name is None or not rec.get("mod", "").startswith("BTrees."):
        return
    fam = dom.fam
    kindname = name[len(fam):]
    if kindname not in ("Bucket", "Set", "BTree", "TreeSet"):
        return
    mapping = kindname in ("Bucket", "BTree")
    tree = kindname in ("BTree", "TreeSet")
    impl = rec["impl"]
    old, com, new = rec["old"], rec["com"], rec["new"]
    oc = rec["outcome"]
    if oc[0] == "ok":
        got = ("ok", oc[1])
    elif oc[1] == "BTreesConflictError":
        got = ("conflict", oc[2])
    else:
        got = ("exc", oc[1])
    base = {"impl": impl, "rec": kindname}
    try:
        want = ("ok", merge_spec(old, com, new, mapping, tree, dom.sortkey,
                                 dom.kid))
    except Refuse as r:
        want = ("conflict", r.classes)
    detail = "old=%r\n com=%r\n new=%r\n -> %r; specification: %r" % (
        old, com, new, got, want)
    ctx.ev("seam", kindname, got[0], got[1] if got[0] != "ok" else None)
    if got[0] == "exc":
        raise Violation(dict(base, oracle="seam-exception", exc=got[1],
                             want=want[0]), detail)
    if got[0] != want[0]:
        raise Violation(dict(base, oracle="seam-decision", got=got[0],
                             want=want[0],
                             reason=got[1] if got[0] == "conflict"
                             else min(want[1])), detail)
    if got[0] == "ok":
        if not same_state(got[1], want[1]):
            raise Violation(dict(base, oracle="seam-state"), detail)
    elif got[1] not in want[1]:
        raise Violation(dict(base, oracle="seam-reason", got=got[1],
                             want=min(want[1])), detail)
    # the other implementation, called directly with the same states
    other = "py" if impl == "c" else "c"
    ocls = dom.cls(kindname, other)
    og = _outcome_of(lambda: ocls()._p_resolveConflict(old, com, new))
    agree = og[0] == got[0] and (
        same_state(og[1], got[1]) if got[0] == "ok" else og[1] == got[1])
    if not agree:
        raise Violation(
            dict(base, oracle="impl-disagree", c=(got if impl == "c"
                                                  else og)[0],
                 py=(og if impl == "c" else got)[0],
                 creason=(got if impl == "c" else og)[1]
                 if (got if impl == "c" else og)[0] != "ok" else None,
                 pyreason=(og if impl == "c" else got)[1]
                 if (og if impl == "c" else got)[0] != "ok" else None),
            detail + "\n %s directly: %r" % (other, og))
    ctx.probe("reason-%s" % (got[1] if got[0] == "conflict" else "merged"))
    ctx.nontriv((kindname, common.fam_class(fam)[0] + common.fam_class(fam)[1],
                 _pattern(dom, mapping, tree, (old, com, new)), got[0],
                 got[1] if got[0] == "conflict" else None))
    ctx.interleaving((kindname, impl, got[0],
                      got[1] if got[0] == "conflict" else None))


MALFORMED = [5, "x", (), ((),), ((), None, None), [1, 2], ((1,),),
             (((1,),),), ((((),),),), (None,), ((None,),), {"a": 1},
             (((), (), ()),)]


def _malformed(plan, dom, cfg, ctx):
    idx = plan["malformed"]
    kind = cfg["kind"]
    bad = MALFORMED[idx % len(MALFORMED)]
    pos = (idx // len(MALFORMED)) % 3
    mapping = is_mapping(kind)
    good_items = []
    for k, v in plan["base"][:2]:
        good_items.append(dom.key(k))
        if mapping:
            good_items.append(dom.val(v))
    good = (tuple(good_items),)
    if is_tree(kind):
        good = ((good,),)
    triple = [good, good, good]
    triple[pos] = bad
    res = {}
    for impl in ("c", "py"):
        cls = dom.cls(kind, impl)
        res[impl] = _outcome_of(
            lambda: cls()._p_resolveConflict(*triple))
    ctx.ev("malformed", idx, res["c"][0], res["py"][0])
    ctx.fault("record-corruption")
    for impl in ("c", "py"):
        if res[impl] == ("exc", "SystemError"):
            raise Violation({"oracle": "malformed-systemerror", "impl": impl},
                            "malformed state %r at position %d: %s raised "
                            "SystemError" % (bad, pos, impl))
    # the decision must agree: a merged state, or a refusal (conflict error
    # or any other exception); exception classes for unparsable states are
    # not compared (they differ freely: TypeError / IndexError / KeyError)
    dc = "ok" if res["c"][0] == "ok" else "refuse"
    dp = "ok" if res["py"][0] == "ok" else "refuse"
    if dc != dp:
        raise Violation({"oracle": "malformed-disagree", "kind": kind,
                         "c": dc, "py": dp},
                        "malformed state %r at position %d: C %r, Python %r"
                        % (bad, pos, res["c"], res["py"]))


def _one_order(plan, order, dom, cfg, ctx):
    from ..world import SimStorage, SimConnection, ConflictError
    kind, impl = cfg["kind"], cfg["impl"]
    mapping = is_mapping(kind)
    st = SimStorage(cfg.get("protocol", 3))
    c0 = SimConnection(st, impl)
    t = dom.new(kind, impl)
    oid = c0.add(t)
    for k, v in plan["base"]:
        if mapping:
            t[dom.key(k)] = dom.val(v)
        else:
            t.add(dom.key(k))
        if cfg["where"] == "multi":
            c0.commit()     # every leaf gets its own record early
    c0.commit()
    if c0.hazards:
        raise Precondition("known C04 finding: inline-duplicate")
    conns = {}
    for who in ("a", "b"):
        conn = SimConnection(st, impl)
        obj = conn.get(oid)
        _apply_edits(obj, plan[who], dom, mapping)
        conns[who] = conn
    recs = []
    st.resolve_hook = recs.append
    for i, who in enumerate(order):
        try:
            conns[who].commit()
            ctx.ev("commit", who, "ok")
        except ConflictError:
            ctx.ev("commit", who, "conflict")
        if i == 1:
            ctx.fault("concurrent-commit")
    for rec in recs:
        _check_rec(rec, dom, cfg, ctx)
    return len(recs)


def _degenerate(plan, dom, cfg, ctx):
    """(old, old, old), (old, x, old), (old, old, x), (old, x, x) with x the
    root's record after client a's edits: a transaction that registered a
    node and wrote it back unaltered (changed and changed back) is a state
    like any other -- a multi-leaf tree state is refused, a leaf merged by
    the rule"""
    from ..world import SimStorage, SimConnection, resolve_class
    kind, impl = cfg["kind"], cfg["impl"]
    mapping = is_mapping(kind)
    st = SimStorage(cfg.get("protocol", 3))
    c0 = SimConnection(st, impl)
    t = dom.new(kind, impl)
    oid = c0.add(t)
    for k, v in plan["base"]:
        if mapping:
            t[dom.key(k)] = dom.val(v)
        else:
            t.add(dom.key(k))
        if cfg["where"] == "multi":
            c0.commit()
    c0.commit()
    if c0.hazards:
        raise Precondition("known C04 finding: inline-duplicate")
    r0 = st.revs[oid][-1][1]
    _apply_edits(t, plan["a"], dom, mapping)
    c0.commit()
    if c0.hazards:
        raise Precondition("known C04 finding: inline-duplicate")
    r1 = st.revs[oid][-1][1]
    for trip in ((r0, r0, r0), (r0, r1, r0), (r0, r0, r1), (r0, r1, r1)):
        refs = {}
        (modname, name), old = st._state(trip[0], refs, impl)
        _, com = st._state(trip[1], refs, impl)
        _, new = st._state(trip[2], refs, impl)
        klass = resolve_class(modname, name, impl)
        oc = _outcome_of(lambda: klass.__new__(klass)._p_resolveConflict(
            old, com, new))
        rec = {"cls": name, "mod": modname, "old": old, "com": com,
               "new": new, "impl": impl,
               "outcome": ("ok", oc[1]) if oc[0] == "ok" else (
                   ("exc", "BTreesConflictError", oc[1])
                   if oc[0] == "conflict" else ("exc", oc[1], None))}
        ctx.fault("written-back-unaltered")
        _check_rec(rec, dom, cfg, ctx)


def execute(plan, ctx):
    from .. import env
    cfg = plan["cfg"]
    env.activate(ctx.variant)
    dom = Domain(cfg["dom"])
    dom.set_node_sizes(cfg.get("leaf"), cfg.get("internal"))
    n = _one_order(plan, "ab", dom, cfg, ctx)
    n += _one_order(plan, "ba", dom, cfg, ctx)
    if plan.get("malformed") is not None:
        _malformed(plan, dom, cfg, ctx)
    if plan.get("degenerate"):
        _degenerate(plan, dom, cfg, ctx)
    ctx.probe("seam-calls", n)

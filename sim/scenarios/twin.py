"""C09 -- the C extension and the pure-Python fallback are interchangeable.

Two replicas, one per implementation, receive the same history; the check is
"replicas never diverge".  The history is the C01 alphabet plus the C02
queries plus the module-level set functions, with arguments drawn from the
family's domain *and* from an out-of-domain pool (wrong types, integers at
and beyond every type boundary, huge ints, inf/nan, bytes of every length,
objects with default comparison, objects with __index__).

Oracle after every call: equal outcome (value with type-strict ==, exception
by class), equal ordered listing, equal state skeleton; at the end equal
pickles.  Two absolute clauses: a lookup with an unusable key reports absence
in both; a write with an unusable key or value raises TypeError in both and
leaves both listings unchanged.
"""
import copy
import pickle

from .. import ops, domains
from ..core import Violation
from ..domains import Domain, is_mapping, is_tree
from . import common

PROP = "C09"
SHRINK = [["ops"]]
BUDGET = {"quick": {"plain": 30000, "max_s": 100},
          "thorough": {"plain": 1000000, "max_s": 1500}}
RULE = ("one run = one seeded history (20-70 calls) applied to a C replica "
        "and a Python replica of one configuration, about a third of the "
        "calls carrying an out-of-domain argument or an operand iterator "
        "that fails after its last item, lazy sequences probed repeatedly; "
        "distinct non-trivial = "
        "distinct (family class, kind, operation, argument classes, tree "
        "height class, outcome class) tuples on which both replicas were "
        "compared")
TECHNIQUE = ("replica-divergence check: the same seeded history (in- and "
             "out-of-domain arguments) drives a C replica and a Python "
             "replica; results, exception classes, contents, state and "
             "pickles are compared after every step")
LEVEL_TEXT = ("Seeded histories over all 22 families x 4 kinds x small and "
              "default node sizes, every call applied to a C and a Python "
              "replica: outcome (type-strict value / exception class), "
              "ordered contents, state skeleton and pickles must agree; "
              "lookups with unusable keys must report absence and writes "
              "with unusable keys or values must raise TypeError and change "
              "nothing, in both. Sampling.")

OOD_NAMES = ["str", "ustr", "bytes0", "bytes1", "bytes2", "bytes3", "bytes5",
             "bytes6", "bytes7", "bytes8", "float", "float_int", "true",
             "false", "none", "tuple", "big", "negbig", "m1", "i32hi",
             "i32lo", "u32hi", "i64hi", "i64lo", "u64hi", "inf", "ninf",
             "nan", "f32big", "f32tiny", "zero", "one", "list", "f01", "obj",
             "index"]

NONINT = {"str", "ustr", "bytes0", "bytes1", "bytes2", "bytes3", "bytes5",
          "bytes6", "bytes7", "bytes8", "float", "none", "tuple", "list",
          "obj", "inf", "ninf", "nan", "f32big", "f32tiny", "f01"}
INTVAL = {"big": 2 ** 70, "negbig": -2 ** 70, "m1": -1, "i32hi": 2 ** 31,
          "i32lo": -2 ** 31 - 1, "u32hi": 2 ** 32, "i64hi": 2 ** 63,
          "i64lo": -2 ** 63 - 1, "u64hi": 2 ** 64, "zero": 0, "one": 1}


def unusable(code, name, as_key):
    """True if the out-of-domain argument `name` is clearly not representable
    in the slot type `code` (I U L Q F O f s); None if the statement does not
    say (the replicas are then only compared with each other)."""
    if code in domains.INT_RANGE:
        if name in NONINT:
            return True
        if name in INTVAL:
            lo, hi = domains.INT_RANGE[code]
            return not (lo <= INTVAL[name] <= hi)
        return None         # bools, float_int, __index__ objects
    if code == "F":
        if name in ("str", "ustr", "none", "tuple", "list", "obj") or \
                name.startswith("bytes"):
            return True
        return None
    if code in ("f", "s"):
        want = "bytes2" if code == "f" else "bytes6"
        if name == want:
            return False
        return True
    if code == "O" and as_key:
        if name == "obj":
            return True
        return None
    return None


OKEY_OOD = ["obj", "obj", "none"]   # object keys: see _mutate


def _mutate(rng, op, mapping, fam="II"):
    """replace one argument of an in-domain op by an out-of-domain spec.
    For object-key families a *key* is only replaced by an object with
    default comparison or None: any other foreign object is a legal key
    there, and a container holding keys of mixed, mutually incomparable
    types is outside every family's domain (each later comparison may
    raise TypeError in either implementation)."""
    op = copy.deepcopy(op)
    name = op[0]
    spec = ["ood", rng.choice(OOD_NAMES)]
    kspec = ["ood", rng.choice(OKEY_OOD)] if fam[0] == "O" else spec
    if name in ("update", "supdate", "ior", "iand", "isub", "ixor",
                "isdisjoint", "ctor") and op[2] != "self" and \
            rng.random() < 0.25:
        # the operand is an iterator that fails after its last item: the
        # iterator's own exception must come out of both implementations
        op[2] = "gen-raises"
        return op
    if name in ("set", "setdefault", "insert", "getd", "popd"):
        pos = rng.choice([1, 2])
        op[pos] = kspec if pos == 1 else spec
    elif name in ("del", "pop", "get", "getitem", "in", "has_key", "add",
                  "sinsert", "remove", "discard"):
        op[1] = kspec
    elif name == "update":
        if not op[1]:
            op[1] = [[0, 0]]
        j = rng.randrange(len(op[1]))
        pos = rng.choice([0, 1])
        op[1][j][pos] = kspec if pos == 0 else spec
        if op[2] == "dict" and isinstance(op[1][j][0], list) and \
                op[1][j][0][1] in ("list", "obj", "nan"):
            op[2] = "list"      # unhashable / identity-keyed dict keys
    elif name in ("supdate", "ior", "iand", "isub", "ixor", "isdisjoint"):
        if op[2] in ("self",):
            return op
        if name in ("supdate", "ior", "isdisjoint") and \
                rng.random() < 0.3:
            # not an iterable at all / one that refuses to be iterated
            # (not for -= &= ^=: there C answers NotImplemented and Python's
            # operator protocol falls back to the binary operator, which
            # takes a single key or None as operand -- `s -= 5` is
            # `s = s - 5` in C and a TypeError in Python; by design)
            op[2] = rng.choice(["noniter-int", "noniter-none",
                                "iter-raises"])
            return op
        if not op[1]:
            op[1] = [0]
        op[1][rng.randrange(len(op[1]))] = kspec
        if op[2] in ("Set", "TreeSet", "pyset", "sorted"):
            op[2] = "list"
    elif name in ("minKey", "maxKey"):
        op = [name, kspec]
    return op


def plan(rng, tier):
    cfg = common.draw_cfg(rng, impls=("c",), p_stored=0.0,
                          p_default_sizes=0.08)
    cfg["stored"] = False
    cfg["dom"]["nk"] = rng.choice([8, 12, 16, 24, 32])
    pre = 0
    if cfg["leaf"] is None and is_tree(cfg["kind"]):
        cfg["dom"]["nk"] = rng.choice([200, 400])
        cfg["dom"]["ext"] = False
        pre = cfg["dom"]["nk"] * 2 // 3
        if cfg["dom"]["fam"] == "OO" and cfg["kind"] == "BTree" and \
                rng.random() < (0.15 if tier == "quick" else 0.4):
            # LARGE: interior nodes split at their default fan-out in both
            # implementations (shapes are compared through the pickles)
            cfg["dom"]["nk"] = rng.choice([8500, 10000])
            cfg["dom"]["kflavor"] = rng.choice(["int", "str"])
            cfg["dom"].pop("none", None)
            pre = cfg["dom"]["nk"] - rng.randrange(500)
    dom = Domain(cfg["dom"])
    kind = cfg["kind"]
    mapping = is_mapping(kind)
    g = common.Gen(rng, dom, kind)
    out = []
    if pre > 5000 and rng.random() < 0.5:
        for k in range(pre):            # ascending
            op = ["set", k, g.val()]
            g.model.apply(op)
            out.append(op)
    elif pre:
        out.extend(g.fill(pre))
    elif rng.random() < 0.5:
        out.extend(g.fill(rng.randint(0, dom.nkeys)))
    n = rng.randint(20, 70) if tier == "quick" else rng.choice(
        [30, 60, 120, 200])
    if pre > 5000:
        n = min(n, 30)
    p_ood = rng.choice([0.0, 0.15, 0.3, 0.5])
    from . import ranges
    meths = ranges.MAP_METHS if mapping else ranges.SET_METHS
    for _ in range(n):
        r = rng.random()
        if r < 0.12:
            q = ranges._range_op(rng, g, meths)
            if rng.random() < p_ood:
                q[rng.choice([2, 3])] = ["ood", rng.choice(
                    OKEY_OOD if dom.fam[0] == "O" else OOD_NAMES)]
            out.append(q)
            continue
        if r < 0.18:
            b = ranges._bound(rng, g)
            if rng.random() < p_ood:
                b = ["ood", rng.choice(
                    OKEY_OOD if dom.fam[0] == "O" else OOD_NAMES)]
            out.append([rng.choice(["minKey", "maxKey"]), b])
            continue
        if r < 0.26:
            out.append(_modfunc(rng, g, dom, kind))
            continue
        if r < 0.31:
            # one lazy sequence probed several times (the search finger
            # moves right and left): len / index / slice / partial iteration
            q = ranges._range_op(rng, g, [m for m in meths
                                          if not m.startswith("iter")])
            pr = []
            for _ in range(rng.randint(1, 3)):
                pr.extend(ranges._probes(rng, len(g.model.d)))
            out.append(["seqprobe", q, pr])
            continue
        if rng.random() < 0.3:
            g.phase = rng.choice(["grow", "mixed", "shrink"])
        op = g.op()
        if rng.random() < p_ood:
            op = _mutate(rng, op, mapping, dom.fam)
        out.append(op)
    return {"cfg": cfg, "ops": out, "pre": pre}


def _modfunc(rng, g, dom, kind):
    fam = dom.fam
    names = ["union", "intersection", "difference"]
    if fam[1] in "IULQF":
        names += ["weightedUnion", "weightedIntersection"]
    if fam[0] in "IULQ":
        names += ["multiunion"]
    fn = rng.choice(names)

    def operand():
        r = rng.random()
        if r < 0.35:
            return ["self"]
        if r < 0.42:
            return ["none"]
        k = rng.choice(["Set", "TreeSet", "Bucket", "BTree"])
        if fn == "multiunion" and rng.random() < 0.3:
            k = rng.choice(["list", "int"])
        elif fn in ("union", "intersection", "difference") and \
                rng.random() < 0.2:
            # a plain Python iterable, unsorted and with duplicates (the
            # functions sort a private copy)
            ks = g.keylist(0, 7)
            return [rng.choice(["list", "tuple", "gen"]), ks,
                    [0 for _ in ks]]
        ks = sorted(set(g.keylist(0, 6)))
        return [k, ks, [g.val() for _ in ks]]
    if fn == "multiunion":
        ops_ = [operand() for _ in range(rng.randint(0, 4))]
        if rng.random() < 0.15:
            # beyond the 800-element switch to radix sort, high keys
            ops_.append(["range", rng.choice([0, 1, 2, 3]),
                         rng.choice([300, 900, 1700]),
                         # step: small, or "half" / "full" = the keys are
                         # spread over the lower half / the whole of the
                         # family's range (every byte of the key varies)
                         rng.choice([1, 3, 7, "half", "full"])])
        return ["mod", fn, ops_]
    a, b = operand(), operand()
    if fn.startswith("weighted"):
        w = [rng.choice([1, 2, -1, 0, 3]), rng.choice([1, 2, -1, 0, 5])] \
            if rng.random() < 0.6 else None
        if w is not None and rng.random() < 0.3:
            # weights of the value type's own kind: fractions for the float
            # families, beyond 32 bits for the 64-bit ones (a weight is a
            # value, not a C int)
            if fam[1] == "F":
                w = [rng.choice([0.5, 1.5, -0.25, 2.0]),
                     rng.choice([0.5, 0.75, -1.5, 1.0])]
            elif fam[1] in "LQ":
                w = [rng.choice([2 ** 31, 2 ** 32 + 1, 2 ** 33, 1]),
                     rng.choice([2 ** 31 + 1, 2 ** 32, 1, 3])]
        return ["mod", fn, [a, b], w]
    return ["mod", fn, [a, b]]


# ---------------------------------------------------------------------------

def _build_operand(spec, c, dom, impl):
    k = spec[0]
    if k == "self":
        return c
    if k == "none":
        return None
    if k == "int":
        return dom.key(spec[1][0]) if spec[1] else dom.key(0)
    if k == "list":
        return [dom.key(x) for x in spec[1]]
    if k == "tuple":
        return tuple(dom.key(x) for x in spec[1])
    if k == "gen":
        return iter([dom.key(x) for x in spec[1]])
    if k == "range":
        lo, hi = domains.INT_RANGE[dom.kcode]
        base = [lo, 0, hi - 40000, (hi // 2) + 1][spec[1]]
        step = spec[3]
        if step == "half":
            base, step = lo, (hi - lo) // (2 * spec[2] + 2)
        elif step == "full":
            base, step = lo, (hi - lo) // (spec[2] + 1)
        base = max(lo, min(base, hi - spec[2] * step - 1))
        vals = [base + i * step for i in range(spec[2])]
        # deterministic shuffle
        return vals[1::2] + vals[0::2]
    if k in ("Set", "TreeSet"):
        return dom.cls(k, impl)([dom.key(x) for x in spec[1]])
    return dom.cls(k, impl)([(dom.key(x), dom.val(v))
                             for x, v in zip(spec[1], spec[2])])


def _norm_result(r, dom):
    """result of a module function -> comparable value"""
    if r is None:
        return None
    if isinstance(r, tuple):
        return tuple(_norm_result(x, dom) for x in r)
    if isinstance(r, (int, float)):
        return r
    name = type(r).__name__
    if name.endswith("Py"):
        name = name[:-2]
    if hasattr(r, "items") and callable(r.items):
        return (name, list(r.items()))
    return (name, list(r.keys()) if hasattr(r, "keys") else list(r))


PRECALL = None      # optional callable run right before the function call
POSTCALL = None     # ... and right after it returned or raised


def _apply_mod(c, op, dom, impl):
    from ..keys import HOOK
    mod = dom.mod
    fn = getattr(mod, op[1] + ("Py" if impl == "py" else ""))
    saved = HOOK.enabled
    HOOK.enabled = False        # operands are built without faults
    try:
        if op[1] == "multiunion":
            args = [[_build_operand(s, c, dom, impl) for s in op[2]]]
        else:
            args = [_build_operand(s, c, dom, impl) for s in op[2]]
            if len(op) > 3 and op[3]:
                args += list(op[3])
    finally:
        HOOK.enabled = saved
    try:
        if PRECALL is not None:
            PRECALL()
        try:
            r = fn(*args)
        finally:
            if POSTCALL is not None:
                POSTCALL()
        return ("ok", _norm_result(r, dom))
    except Exception as e:
        return ops.norm_exc(e)


def strict_same(a, b):
    """== plus type agreement for bool/int/float/str/bytes scalars"""
    if isinstance(a, (list, tuple)) and isinstance(b, (list, tuple)):
        return type(a) is type(b) and len(a) == len(b) and all(
            strict_same(x, y) for x, y in zip(a, b))
    if isinstance(a, (bool, int, float, str, bytes)) or \
            isinstance(b, (bool, int, float, str, bytes)):
        if type(a) is not type(b):
            return False
    return ops.same_value(a, b)


def _same_outcome(a, b):
    if a[0] != b[0]:
        return False
    if a[0] == "exc":
        return a[1] == b[1]
    # return values by == (add() gives 1 in C and True in Python: equal);
    # type strictness is applied to what is *stored* (listing, state, pickle)
    return ops.same_value(a[1], b[1])


def _skeleton(c):
    """state with class names mapped to canonical ones"""
    def f(x):
        if isinstance(x, tuple):
            return tuple(f(y) for y in x)
        if hasattr(x, "__getstate__") and type(x).__module__.startswith(
                ("BTrees.", "sim.subcls")):
            name = type(x).__name__
            if name.endswith("Py"):
                name = name[:-2]
            return (name, f(x.__getstate__()))
        return x
    return f(c.__getstate__())


def _argclasses(op):
    out = []

    def cls(x):
        if ops._is_ood(x):
            return x[1]
        return "dom"
    name = op[0]
    if name in ("set", "setdefault", "insert", "getd", "popd"):
        out = [cls(op[1]), cls(op[2])]
    elif name in ("update",):
        ks = [cls(k) for k, v in op[1] if ops._is_ood(k)]
        vs = [cls(v) for k, v in op[1] if ops._is_ood(v)]
        out = [ks[0] if ks else "dom", vs[0] if vs else "dom"]
    elif name in ("supdate", "ior", "iand", "isub", "ixor", "isdisjoint"):
        ks = [cls(k) for k in op[1] if ops._is_ood(k)]
        out = [ks[0] if ks else "dom", op[2]]
    elif name == "range":
        out = [cls(op[2]) if isinstance(op[2], list) else "b",
               cls(op[3]) if isinstance(op[3], list) else "b"]
    elif name == "mod":
        out = [op[1]] + [s[0] for s in op[2]]
    elif len(op) > 1:
        out = [cls(op[1])]
    return out


def _oodnames(x, out=None):
    if out is None:
        out = set()
    if ops._is_ood(x):
        out.add(x[1])
    elif isinstance(x, list):
        for y in x:
            _oodnames(y, out)
    return out


def _f32_exact(x):
    import struct
    if isinstance(x, bool) or not isinstance(x, (int, float)):
        return True
    try:
        return struct.unpack("f", struct.pack("f", x))[0] == x or x != x
    except (OverflowError, struct.error):
        return False


def _enrich(base, op, dom, outs):
    names = _oodnames(op[1:])
    if names:
        base["ood"] = "+".join(sorted(names))
    if dom.fam[1] == "F" and any(
            not _f32_exact(ops.OOD.get(n)) for n in names):
        base["inexact_f32"] = True
    if op[0] == "mod" and op[1].startswith("weighted") and \
            dom.fam[1] in domains.INT_RANGE and outs["py"][0] == "ok":
        lo, hi = domains.INT_RANGE[dom.fam[1]]
        r = outs["py"][1]
        vals = []
        if isinstance(r, tuple) and len(r) == 2 and \
                isinstance(r[1], tuple) and len(r[1]) == 2:
            vals = [v for kv in r[1][1] if isinstance(kv, tuple)
                    for v in kv[1:]]
            vals.append(r[0])
        if any(isinstance(v, int) and not (lo <= v <= hi) for v in vals):
            base["overflow"] = True
    if op[0] == "mod" and op[1].startswith("weighted") and \
            dom.fam[1] == "F" and outs["py"][0] == "ok":
        r = outs["py"][1]
        if isinstance(r, tuple) and len(r) == 2 and \
                isinstance(r[1], tuple) and len(r[1]) == 2:
            vals = [v for kv in r[1][1] if isinstance(kv, tuple)
                    for v in kv[1:]] + [r[0]]
            if any(not _f32_exact(v) for v in vals):
                base["inexact_f32"] = True
    return base


LOOKUPS = ("get", "getd", "getitem", "in", "has_key")
KEY_WRITES = ("set", "setdefault", "insert", "add", "sinsert")


def _absolute(op, dom, outs, changed, base):
    """the two absolute clauses of the statement; raises Violation"""
    name = op[0]
    fam = dom.fam
    if name in LOOKUPS and ops._is_ood(op[1]):
        if unusable(fam[0], op[1][1], True):
            for impl, got in outs.items():
                if name in ("get",):
                    ok = got == ("ok", None)
                elif name == "getd":
                    ok = got[0] == "ok" and not ops._is_ood(op[2]) and \
                        strict_same(got[1], dom.val(op[2])) or \
                        got[0] == "ok" and ops._is_ood(op[2])
                elif name == "getitem":
                    ok = got == ("exc", "KeyError")
                else:
                    ok = got == ("ok", False)
                if not ok:
                    raise Violation(
                        dict(base, oracle="unusable-lookup", impl=impl,
                             got=got[1] if got[0] == "exc" else "value"),
                        "%s: lookup %r with an unusable key -> %r (must "
                        "report absence)" % (impl, op, got))
    if name in KEY_WRITES:
        bad = False
        if ops._is_ood(op[1]) and unusable(fam[0], op[1][1], True):
            bad = True
        if len(op) > 2 and ops._is_ood(op[2]) and \
                unusable(fam[1], op[2][1], False):
            bad = True
            if name == "setdefault":
                bad = None      # default only looked at when key is missing
        if bad:
            for impl, got in outs.items():
                if got != ("exc", "TypeError") or changed[impl]:
                    raise Violation(
                        dict(base, oracle="unusable-write", impl=impl,
                             got=got[1] if got[0] == "exc" else "value",
                             changed=changed[impl]),
                        "%s: write %r with an unusable key/value -> %r, "
                        "contents changed: %r (must raise TypeError and "
                        "change nothing)" % (impl, op, got, changed[impl]))


def _listing(c, mapping, impl, when, op):
    try:
        return ops.listing(c, mapping)
    except Exception as e:
        raise Violation({"oracle": "listing-raised", "impl": impl,
                         "exc": type(e).__name__, "op": op[0]},
                        "%s: listing the container %s %r raised %r" % (
                            impl, when, op, e))


def execute(plan, ctx):
    from .. import env
    cfg = plan["cfg"]
    env.activate(ctx.variant)
    dom = Domain(cfg["dom"])
    dom.set_node_sizes(cfg.get("leaf"), cfg.get("internal"))
    kind = cfg["kind"]
    mapping = is_mapping(kind)
    reps = {"c": dom.new(kind, "c"), "py": dom.new(kind, "py")}
    famc = common.fam_class(dom.fam)
    pre = plan.get("pre", 0)
    for idx, op in enumerate(plan["ops"]):
        name = op[0]
        outs = {}
        changed = {}
        before = {}
        for impl in ("c", "py"):
            c = reps[impl]
            if idx >= pre:
                before[impl] = _listing(c, mapping, impl, "before", op)
            if name == "mod":
                outs[impl] = _apply_mod(c, op, dom, impl)
            elif name == "seqprobe":
                from . import ranges
                try:
                    seq = ops.call_range(c, op[1], dom)
                    outs[impl] = ("ok", [ranges._run_probe(seq, pr)
                                         for pr in op[2]])
                    seq = None
                except Exception as e:
                    outs[impl] = ops.norm_exc(e)
            else:
                outs[impl] = ops.apply(c, op, dom, impl, kind)
                if name in ("update", "supdate") and outs[impl][0] == "ok":
                    outs[impl] = ("ok", None)   # return value undocumented
        if idx < pre:
            continue
        lst = {i: _listing(reps[i], mapping, i, "after", op) for i in reps}
        for impl in reps:
            changed[impl] = not strict_same(before[impl], lst[impl])
        a, b = outs["c"], outs["py"]
        ctx.ev(name, a[0], a[1] if a[0] == "exc" else None,
               b[0], b[1] if b[0] == "exc" else None)
        h = 0
        if is_tree(kind):
            st = reps["c"].__getstate__()
            h = 0 if st is None else (1 if len(st) == 1 else 2)
        base = _enrich({"op": name if name != "mod" else op[1],
                        "kind": kind, "args": _argclasses(op),
                        "fam": famc}, op, dom, outs)
        oc = (a[1] if a[0] == "exc" else "ok", b[1] if b[0] == "exc"
              else "ok")
        if not _same_outcome(a, b):
            raise Violation(dict(base, oracle="twin-result", c=oc[0],
                                 py=oc[1], h=h),
                            "%r: C -> %r, Python -> %r" % (op, a, b))
        if not strict_same(lst["c"], lst["py"]):
            raise Violation(dict(base, oracle="twin-listing", c=oc[0],
                                 py=oc[1], h=h),
                            "after %r: C lists %r, Python lists %r" % (
                                op, lst["c"][:30], lst["py"][:30]))
        _absolute(op, dom, outs, changed, base)
        if dom.nkeys <= 64:
            sa, sb = _skeleton(reps["c"]), _skeleton(reps["py"])
            if not strict_same(sa, sb):
                raise Violation(dict(base, oracle="twin-state", h=h),
                                "after %r: C state %r\n Python state %r" % (
                                    op, sa, sb))
        ctx.nontriv((famc, kind, base["op"], tuple(base["args"]), h, oc))
        ctx.interleaving((base["op"], tuple(base["args"]), oc))
    for proto in (2, 3, 5):
        try:
            pa = pickle.dumps(reps["c"], proto)
            pb = pickle.dumps(reps["py"], proto)
        except Exception as e:
            raise Violation({"oracle": "twin-pickle", "kind": kind,
                             "fam": famc, "what": type(e).__name__},
                            "pickling failed: %r" % (e,))
        if pa != pb:
            # same bytes after a round trip through the C classes (native
            # slots: no object sharing) => the pickles differ only in which
            # equal objects are shared (memo opcodes)
            what = "bytes"
            try:
                if pickle.dumps(pickle.loads(pa), proto) == \
                        pickle.dumps(pickle.loads(pb), proto):
                    what = "memo-only"
            except Exception:
                pass
            raise Violation({"oracle": "twin-pickle", "kind": kind,
                             "fam": famc, "what": what},
                            "protocol %d pickles differ:\n C  %r\n Py %r" % (
                                proto, pa[:300], pb[:300]))
    ctx.ev("pickles-equal")

"""C19 -- BTrees.Length is a conflict-free counter.

N clients open the same committed Length from one snapshot, each applies a
planned sequence of change()/set() calls, the scheduler (the plan) picks the
commit order, optional crash between vote and finish drops a commit.  Oracle:
final stored value == initial + sum of the committed clients' net changes, the
same for the reversed commit order; at the resolver seam
resolve(old, a, b) == a + b - old == resolve(old, b, a); single-client
histories behave as an integer cell that survives commit+reload and pickling.
"""
import copy
import pickle

from ..core import Violation
from .. import env

PROP = "C19"
SHRINK = [["clients"], ["single"]]

MAGS = [0, 1, 2, 3, 7, 100, 2 ** 31 - 1, 2 ** 31, 2 ** 32, 2 ** 63 - 1,
        2 ** 63, 2 ** 64, 2 ** 100, 10 ** 30]


def _num(rng):
    if rng.random() < 0.06:
        # integers that are not plain ints (a bool IS an integer)
        return rng.choice([True, False])
    m = rng.choice(MAGS)
    if rng.random() < 0.3:
        m += rng.choice([-1, 1])
    return -m if rng.random() < 0.45 else m


def plan(rng, tier):
    n = rng.choice([2, 2, 2, 3, 3, 4, 5, 6])
    clients = []
    for _ in range(n):
        ops = []
        for _ in range(rng.choice([0, 1, 1, 1, 2, 3])):
            if rng.random() < 0.8:
                ops.append(["change", _num(rng)])
            else:
                ops.append(["set", _num(rng)])
        clients.append({"ops": ops,
                        "crash": rng.random() < 0.08,
                        "impl_sweep": rng.random() < 0.2})
    order = list(range(n))
    rng.shuffle(order)
    single = []
    for _ in range(rng.choice([0, 2, 4, 8])):
        r = rng.random()
        if r < 0.35:
            single.append(["change", _num(rng)])
        elif r < 0.55:
            single.append(["set", _num(rng)])
        elif r < 0.66:
            single.append(["call"])
        elif r < 0.7:
            # the resolver asked for an answer on a LIVE counter (a plain
            # function of its three arguments: the cell is not its business)
            single.append(["resolve", _num(rng), _num(rng), _num(rng)])
        elif r < 0.76:
            # state protocol on a live object: x.__setstate__(y.__getstate__())
            single.append(["setstate", rng.choice([0, 0, _num(rng)])])
        elif r < 0.8:
            single.append(["commit"])
        elif r < 0.9:
            single.append(["reload"])
        else:
            single.append(["pickle", rng.choice([0, 1, 2, 3, 4, 5])])
    return {"init": _num(rng), "clients": clients, "order": order,
            "protocol": rng.choice([0, 1, 2, 3, 4, 5]), "single": single,
            # the counter is an instance of a subclass whose constructor
            # takes something else first
            "sub": rng.random() < 0.15}


def _new_length(plan, v):
    from BTrees.Length import Length
    if plan.get("sub"):
        from .. import subcls
        return subcls.LabelledLength("counter", v)
    return Length(v)


def _concurrent(plan, order, ctx, tag):
    from ..world import (SimStorage, SimConnection, ConflictError,
                         CrashInCommit)
    from BTrees.Length import Length
    st = SimStorage(plan["protocol"])
    c0 = SimConnection(st)
    ln = _new_length(plan, plan["init"])
    oid = c0.add(ln)
    c0.commit()
    conns = []
    finals = []
    for i, cl in enumerate(plan["clients"]):
        c = SimConnection(st)
        o = c.get(oid)
        for op in cl["ops"]:
            if op[0] == "change":
                o.change(op[1])
            else:
                o.set(op[1])
        conns.append((c, o))
        finals.append(o())
    expected = plan["init"]
    committed = 0
    for i in order:
        if i >= len(conns):
            continue
        c, o = conns[i]
        cl = plan["clients"][i]
        if not cl["ops"]:
            c.commit()
            continue
        try:
            c.commit(crash="after_vote" if cl.get("crash") else None)
        except CrashInCommit:
            ctx.fault("crash-in-2pc")
            ctx.ev(tag, "crash", i)
            continue
        except ConflictError:
            raise Violation({"oracle": "length-conflict"},
                            "a Length commit raised ConflictError")
        committed += 1
        if committed > 1:
            ctx.fault("concurrent-commit")
        expected += finals[i] - plan["init"]
        ctx.ev(tag, "commit", i, expected)
    for rec in st.resolver_log:
        oc = rec.get("outcome")
        want = rec["com"] + rec["new"] - rec["old"]
        if oc != ("ok", want):
            raise Violation({"oracle": "length-seam"},
                            "resolve(%r,%r,%r) -> %r, want %r" % (
                                rec["old"], rec["com"], rec["new"], oc, want))
        klass = type(_new_length(plan, 0))
        sym = klass.__new__(klass)._p_resolveConflict(
            rec["old"], rec["new"], rec["com"])
        if sym != want:
            raise Violation({"oracle": "length-seam-symmetry"},
                            "resolve not symmetric")
    r = SimConnection(st)
    got = r.get(oid)()
    ctx.ev(tag, "final", got)
    if got != expected:
        raise Violation({"oracle": "length-sum"},
                        "final %r, expected %r (order %r)" % (
                            got, expected, order))
    return got, len(st.resolver_log)


def _single(plan, ctx):
    from ..world import SimStorage, SimConnection
    from BTrees.Length import Length
    if not plan["single"]:
        return
    st = SimStorage(plan["protocol"])
    c = SimConnection(st)
    cell = plan["init"]
    committed = cell
    ln = _new_length(plan, cell)
    oid = c.add(ln)
    c.commit()
    for op in plan["single"]:
        name = op[0]
        if name == "change":
            ln.change(op[1])
            cell += op[1]
        elif name == "set":
            ln.set(op[1])
            cell = op[1]
        elif name == "call":
            pass
        elif name == "resolve":
            changed = ln._p_changed
            nreg = len(c.registered)
            got = ln._p_resolveConflict(op[1], op[2], op[3])
            if got != op[2] + op[3] - op[1]:
                raise Violation({"oracle": "length-seam", "on": "live"},
                                "resolve(%r,%r,%r) -> %r" % (
                                    op[1], op[2], op[3], got))
            if ln._p_changed != changed or len(c.registered) != nreg:
                raise Violation({"oracle": "length-cell", "at": "resolve",
                                 "what": "registered"},
                                "resolving on a live counter marked it "
                                "changed")
        elif name == "setstate":
            ln.__setstate__(Length(op[1]).__getstate__())
            ln._p_changed = True
            cell = op[1]
        elif name == "commit":
            c.commit()
            committed = cell
            got = SimConnection(st).get(oid)()
            if got != cell:
                raise Violation({"oracle": "length-cell", "at": "reload"},
                                "fresh reader sees %r want %r" % (got, cell))
        elif name == "reload":
            c.abort()
            cell = committed
        elif name == "pickle":
            p = pickle.loads(pickle.dumps(ln, op[1]))
            q = copy.deepcopy(ln)
            if p() != cell or q() != cell or p.__getstate__() != cell:
                raise Violation({"oracle": "length-cell", "at": "pickle"},
                                "pickle/copy lost the value")
        if ln() != cell or ln.__getstate__() != cell or ln.value != cell:
            raise Violation({"oracle": "length-cell", "at": name},
                            "cell %r, Length %r" % (cell, ln()))
        ctx.ev("single", name, cell)


def execute(plan, ctx):
    env.activate(ctx.variant)
    order = plan["order"]
    a, nres = _concurrent(plan, order, ctx, "fwd")
    b, _ = _concurrent(plan, list(reversed(order)), ctx, "rev")
    crashed = any(c.get("crash") for c in plan["clients"])
    if a != b:
        raise Violation({"oracle": "length-order"},
                        "commit order changed the result: %r vs %r" % (a, b))
    _single(plan, ctx)
    ctx.interleaving(tuple(order))
    big = sum(1 for c in plan["clients"] for o in c["ops"]
              if abs(o[1]) >= 2 ** 63)
    ctx.nontriv((len(plan["clients"]), nres, min(big, 3), crashed,
                 len(plan["single"])))

BUDGET = {"quick": {"plain": 60000, "max_s": 90},
          "thorough": {"plain": 3000000, "max_s": 1500}}
RULE = ("one run = one seeded plan: 2-6 clients from one snapshot with "
        "change/set sequences over magnitudes up to 2**100, a commit order, "
        "optional crash between vote and finish, both commit orders executed, "
        "plus a single-client cell history; distinct non-trivial = distinct "
        "(clients, resolver calls, #huge operands (capped 3), crash?, "
        "single-history length) tuples")
ASSUMPTIONS = ["integers only (the statement says integer cell)"]

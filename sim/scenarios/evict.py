"""C05 -- evicting nodes from the object cache never changes behaviour.

World: container C1 lives in connection A, whose cache is swept by the
simulator; an identical twin C2, built by the same history, lives in
connection B where nothing is ever evicted.  Both are committed regularly
(only clean nodes can be evicted).

Faults:
  evict-between     cache sweep between two operations: minimize(), incrgc()
                    with a tiny target, or _p_deactivate() on a planned
                    subset of nodes
  evict-in-compare  object-key families with hooked keys (sim/keys.py HK):
                    at the planned comparison index *inside* the planned
                    operation the hook calls _p_deactivate() on every cached
                    node of A (pinned nodes refuse: that is the behaviour
                    under test) or cache.minimize()

Oracle:
  (1) every operation's outcome on C1 (value or exception class) equals the
      outcome on C2, and the listings agree;
  (2) after every operation -- returned or raised -- no node in A's cache is
      in the sticky state, and _p_deactivate() on every up-to-date node
      really turns it into a ghost (scratch pass; they reload on demand);
  (3) C1 passes _check() and the independent walker after reloading;
  (4) the same plans on the ASan+UBSan build report nothing.
Operations include the failing ones the property names (bad key/value,
missing key, unusable bound, minKey/maxKey without a qualifying key), range
queries, lazy sequences held across sweeps, and module-level set algebra.
"""
import copy

from .. import ops, walker, keys
from ..core import Violation, Precondition
from ..domains import Domain, is_mapping, is_tree, OBJECT_KEY_FAMILIES
from . import common

PROP = "C05"
SHRINK = [["ops"]]
BUDGET = {"quick": {"plain": 20000, "asan": 3000, "max_s": 110},
          "thorough": {"plain": 200000, "asan": 40000, "max_s": 1500}}
RULE = ("one run = one seeded history on a stored container with seeded "
        "cache sweeps between operations and (object keys) inside the n-th "
        "key comparison of an operation, mirrored on an un-evicted twin; "
        "distinct non-trivial = distinct (impl, kind, operation, outcome "
        "class, fault kind, which node classes were actually ghosted "
        "(root/interior/leaf), whether a pinned node refused) tuples with "
        "at least one node really evicted")
TECHNIQUE = ("deterministic simulation with cache-eviction fault injection "
             "between operations and inside key comparisons (hooked key "
             "class), against an un-evicted twin; sticky-state monitor; "
             "sanitizer build")
LEVEL_TEXT = ("Seeded histories (incl. failing operations, range queries, "
              "held lazy sequences, set algebra) on stored containers, all "
              "families and kinds, both implementations, with seeded cache "
              "sweeps between operations and, for object keys, inside a "
              "seeded key comparison of a seeded operation (every cached "
              "node, leaves only, parents only, a seeded subset, "
              "cache.minimize(); optionally with everything off the path a "
              "ghost beforehand; shape-directed ranges that must come back "
              "to a left sibling subtree, swept at every comparison); "
              "outcomes and "
              "contents compared with an un-evicted twin, no node may stay "
              "sticky after any operation and every clean node must be "
              "evictable; also run on the ASan+UBSan build. Sampling (the "
              "thorough tier enumerates every comparison index of sampled "
              "operations; directed steps sweep at EVERY comparison of a "
              "range that has to come back to the left sibling subtree and "
              "of a delete whose key is a separator two levels up).")
LEVEL = {"quick": "exploration", "thorough": "exploration"}


def plan(rng, tier):
    hk = rng.random() < 0.55
    fams = OBJECT_KEY_FAMILIES if hk else None
    cfg = common.draw_cfg(rng, fams=fams, hk=hk, p_stored=1.0,
                          p_default_sizes=0.04, p_sub=0.08)
    cfg["stored"] = True
    if cfg["internal"] == 2 and rng.random() < 0.7:
        cfg["internal"] = rng.choice([3, 4])
    cfg["dom"]["nk"] = rng.choice([8, 12, 16, 24, 32])
    if hk:
        cfg["dom"]["ext"] = False
    pre = 0
    if cfg["leaf"] is None and is_tree(cfg["kind"]):
        cfg["dom"]["nk"] = rng.choice([150, 300])
        cfg["dom"]["ext"] = False
        pre = cfg["dom"]["nk"] * 2 // 3
    dom = Domain(cfg["dom"])
    kind = cfg["kind"]
    mapping = is_mapping(kind)
    g = common.Gen(rng, dom, kind)
    g.p_bad = 0.0 if hk else 0.06
    out = []
    if pre:
        out.extend(g.fill(pre))
    else:
        out.extend(g.fill(rng.randint(0, dom.nkeys)))
    out.append(["commit"])
    n = rng.randint(15, 50) if tier == "quick" else rng.choice([30, 60, 100])
    from . import ranges, twin
    meths = ranges.MAP_METHS if mapping else ranges.SET_METHS
    p_sweep = rng.choice([0.1, 0.25, 0.5])
    p_cmp = rng.choice([0.0, 0.3, 0.6]) if hk else 0.0
    slots = 0
    for _ in range(n):
        r = rng.random()
        if hk and is_tree(kind) and r < 0.03 and len(g.model.d) > 6:
            out.append(["commit"])
            out.append([rng.choice(["@goleft", "@goleft", "@delsep"]),
                        rng.randrange(1 << 16),
                        rng.choice(["interior", "deactivate"])])
            continue
        if hk and p_cmp and is_tree(kind) and g.model.d and r < 0.10:
            # directed: a range whose exclusive upper bound is a present key
            # (if it is the first key of its leaf the search has to come back
            # to the sibling subtree on the left) with everything off the
            # path a ghost and the parents evicted during a comparison
            ks = g.model.skeys()
            hi = rng.choice(ks)
            lo = rng.choice(["omit", "omit", rng.choice(ks)])
            out.append(["sweep", "minimize", 0])
            out.append(["@cmp", rng.randrange(1 << 16),
                        rng.choice(["interior", "interior", "deactivate",
                                    "some"]),
                        ["range", rng.choice(meths), lo, hi,
                         rng.randrange(2), 1, rng.choice(["pos", "kw"])]])
            continue
        if r < 0.12:
            op = ranges._range_op(rng, g, meths)
            if not hk and rng.random() < 0.15:
                op[rng.choice([2, 3])] = ["ood", rng.choice(
                    ["str", "none", "tuple", "big", "bytes3", "obj"])]
        elif r < 0.20:
            b = ranges._bound(rng, g)
            if not hk and rng.random() < 0.2:
                b = ["ood", rng.choice(["str", "tuple", "big", "bytes3"])]
            op = [rng.choice(["minKey", "maxKey"]), b]
            if b in ("omit",):
                op = [op[0]]
            elif b == "none":
                op = [op[0]]
        elif r < 0.26:
            op = ["seqopen", slots % 2] + ranges._range_op(rng, g, meths)[1:]
            if op[2].startswith("iter"):
                op[2] = op[2][4:]
            slots += 1
        elif r < 0.36 and slots:
            op = ["seqprobe", rng.randrange(2),
                  ranges._probes(rng, len(g.model.d))[0]]
        elif r < 0.42 and not hk:
            op = twin._modfunc(rng, g, dom, kind)
        elif r < 0.45 and mapping and dom.fam[1] != "s":
            # byValue(min): with a usable minimum, or (native values) one
            # that cannot be converted -- a failing call of its own kind
            bv = ops.bad_value_spec(dom.fam)
            op = ["byValue", bv if bv is not None and rng.random() < 0.4
                  else g.val()]
        else:
            if rng.random() < 0.3:
                g.phase = rng.choice(["grow", "mixed", "shrink"])
            op = g.op()
        if hk and rng.random() < p_cmp:
            op = ["@cmp", rng.randrange(1 << 16),
                  rng.choice(["deactivate", "deactivate", "minimize",
                              "leaves", "leaves", "some", "some",
                              "interior"]), op]
            if rng.random() < 0.5:
                # everything off the operation's path is a ghost when the
                # in-comparison sweep comes: a ghost whose parent is evicted
                # then has no owner left
                out.append(["sweep", "minimize", 0])
        elif op[0] in RAISABLE and rng.random() < 0.08:
            # a *failing* operation of yet another kind: everything is
            # evicted and the storage fails to deliver the n-th node the
            # operation asks for; pins must be released all the same
            op = ["@loadfail", rng.randint(1, 6),
                  rng.choice(["err", "poskey"]), op]
        elif hk and op[0] in RAISABLE and rng.random() < 0.2:
            # a *failing* operation of another kind: the n-th key comparison
            # raises (on both sides); pins must be released all the same
            op = ["@raise", rng.randrange(1 << 16), op]
        out.append(op)
        if rng.random() < p_sweep:
            out.append(["sweep", rng.choice(["minimize", "minimize",
                                             "incrgc", "some"]),
                        rng.randrange(1 << 16)])
        if rng.random() < 0.2:
            out.append(["commit"])
        if rng.random() < 0.15:
            out.append(["scratch"])
    out.append(["commit"])
    out.append(["sweep", "minimize", 0])
    out.append(["scratch"])
    # "quiet" runs: the full listing / soundness comparison (which loads
    # every node) only after every q-th fault-free operation, so that
    # operations also START from the partly loaded states their
    # predecessors left behind (the observer must not reload the world
    # after every step)
    return {"cfg": cfg, "ops": out, "pre": pre,
            "quiet": rng.choice([3, 5, 1000]) if rng.random() < 0.4 else 1}


def simplify(plan):
    for i, o in enumerate(plan["ops"]):
        if o[0] in ("@cmp", "@loadfail"):
            p = copy.deepcopy(plan)
            p["ops"][i] = o[3]
            yield p
    for i, o in enumerate(plan["ops"]):
        if o[0] == "sweep" and o[1] != "minimize":
            p = copy.deepcopy(plan)
            p["ops"][i] = ["sweep", "minimize", 0]
            yield p


# ---------------------------------------------------------------------------

MUTATORS = ("set", "del", "insert", "setdefault", "pop", "popd", "popitem",
            "update", "clear", "add", "sinsert", "remove", "discard", "spop",
            "supdate", "ior", "iand", "isub", "ixor")


DELETERS = ("del", "pop", "popd", "popitem", "remove", "discard", "spop",
            "isub", "iand", "ixor", "clear")
RAISABLE = ("get", "getd", "getitem", "in", "has_key", "minKey", "maxKey",
            "range", "isdisjoint", "mod")


class _Side(object):
    def __init__(self, cfg, dom, protocol):
        from ..world import SimStorage, SimConnection
        self.st = SimStorage(protocol)
        self.conn = SimConnection(self.st, cfg["impl"])
        self.c = dom.new(cfg["kind"], cfg["impl"])
        self.oid = self.conn.add(self.c)
        self.seqs = {}


def _node_class(obj, root):
    if obj is root:
        return "root"
    # (by TYPE: any attribute lookup on the node itself, `hasattr(obj, ..)`
    # included, re-activates a ghost -- the sweep this function classifies
    # for would be undone the moment it is counted; Session 4)
    return "interior" if _is_tree_type(type(obj)) else "leaf"


_TREE_NAMES = ("BTree", "TreeSet", "BTreePy", "TreeSetPy")
_tree_types = {}


def _is_tree_type(t):
    r = _tree_types.get(t)
    if r is None:
        r = _tree_types[t] = any(
            b.__module__.startswith("BTrees.") and b.__name__[2:] in
            _TREE_NAMES for b in t.__mro__)
    return r


def _sweep(side, how, arg, ctx):
    """-> (number ghosted, classes ghosted, number that refused)"""
    from ..world import GHOST
    conn = side.conn
    before = dict((o._p_oid, o._p_state) for o in conn.nodes())
    if how == "some":
        pick = set(o._p_oid for j, o in enumerate(conn.nodes())
                   if (arg >> (j % 16)) & 1)
        conn.sweep("deactivate", pick)
    elif how == "incrgc":
        conn.sweep("incrgc", 1 + arg % 4)
    elif how == "deactivate":
        conn.sweep("deactivate", None)
    elif how == "leaves":
        conn.sweep("deactivate", set(
            o._p_oid for o in conn.nodes()
            if _node_class(o, side.c) == "leaf"))
    elif how == "interior":
        # parents only: a ghost child whose parent is evicted is freed
        conn.sweep("deactivate", set(
            o._p_oid for o in conn.nodes()
            if _node_class(o, side.c) != "leaf"))
    else:
        conn.sweep("minimize")
    classes = set()
    n = 0
    refused = 0
    for o in conn.nodes():
        b = before.get(o._p_oid)
        if o._p_state == GHOST and b is not None and b != GHOST:
            n += 1
            classes.add(_node_class(o, side.c))
        elif b == 2 and o._p_state == 2:
            refused += 1
    return n, classes, refused


def _do(side, op, dom, cfg, twinside):
    """run one (unwrapped) operation on a side; -> outcome"""
    impl, kind = cfg["impl"], cfg["kind"]
    name = op[0]
    if name == "seqopen":
        q = ["seq"] + op[2:]
        try:
            side.seqs[op[1]] = ops.call_range(side.c, q, dom)
            return ("ok", "opened")
        except Exception as e:
            return ops.norm_exc(e)
    if name == "seqprobe":
        from . import ranges
        seq = side.seqs.get(op[1])
        if seq is None:
            return ("ok", "no-seq")
        r = ranges._run_probe(seq, op[2])
        return r
    if name == "mod":
        from . import twin
        return twin._apply_mod(side.c, op, dom, impl)
    return ops.apply(side.c, op, dom, impl, kind)


def _raise():
    raise keys.SimCompareError("injected")


def _outcome_class(o):
    return o[1] if o[0] == "exc" else "ok"


def execute(plan, ctx):
    from .. import env
    from ..world import GHOST, UPTODATE, STICKY
    cfg = plan["cfg"]
    env.activate(ctx.variant)
    dom = Domain(cfg["dom"])
    dom.set_node_sizes(cfg.get("leaf"), cfg.get("internal"))
    impl, kind = cfg["impl"], cfg["kind"]
    mapping = is_mapping(kind)
    A = _Side(cfg, dom, cfg.get("protocol", 3))
    B = _Side(cfg, dom, cfg.get("protocol", 3))
    hook = keys.HOOK
    hook.reset()
    pre = plan.get("pre", 0)
    base = {"impl": impl, "kind": kind}
    evicted_any = False
    try:
        ops_list = list(plan["ops"])
        idx = -1
        while idx + 1 < len(ops_list):
            idx += 1
            op0 = ops_list[idx]
            name = op0[0]
            if name == "@goleft":
                # resolved against the actual shape: a range whose exclusive
                # upper bound is the first key of the first leaf of a
                # NON-leftmost interior node, so that the search has to come
                # back to the sibling subtree on its left; everything off the
                # path a ghost; the planned sweep at EVERY comparison index
                if not is_tree(kind):
                    continue
                w_ = walker.walk(B.c, dom, mapping)
                cands = [lf for lf in w_.leaves
                         if id(lf) in w_.subtree_firsts]
                if not cands:
                    ctx.probe("goleft-not-applicable")
                    continue
                lf = cands[op0[1] % len(cands)]
                ki = dom.index_of(lf.__getstate__()[0][0])
                w_ = lf = cands = None
                extra = []
                for n_ in range(10):
                    extra.append(["sweep", "minimize", 0])
                    extra.append(["@cmp", n_, op0[2],
                                  ["range", "keys", "omit", ki, 0, 1, "kw"]])
                ops_list[idx + 1:idx + 1] = extra
                ctx.probe("goleft-expanded")
                continue
            if name == "@delsep":
                # resolved against the actual shape: delete the first key(s)
                # of the first leaf of a NON-leftmost interior node -- a key
                # that is a separator two or more levels up, which every
                # level refreshes on the way back up after one more
                # comparison; everything off the path a ghost, the planned
                # sweep at the last comparisons of the delete
                if not is_tree(kind):
                    continue
                w_ = walker.walk(B.c, dom, mapping)
                cands = [lf for lf in w_.leaves
                         if id(lf) in w_.subtree_firsts]
                if not cands:
                    ctx.probe("delsep-not-applicable")
                    continue
                lf = cands[op0[1] % len(cands)]
                kis = [dom.index_of(k) for k in lf.keys()]
                w_ = lf = cands = None
                extra = []
                for j, ki in enumerate(kis[:-1][:3]):
                    extra.append(["sweep", "minimize", 0])
                    extra.append(["@cmp", -1 - j, op0[2],
                                  ["del" if mapping else "remove", ki]])
                ops_list[idx + 1:idx + 1] = extra
                ctx.probe("delsep-expanded")
                continue
            if name == "commit":
                for s in (A, B):
                    s.conn.commit()
                    if s.conn.hazards:
                        ctx.probe("abandoned:known-C04-inline-duplicate")
                        raise Precondition("known C04 finding")
                ctx.ev("commit")
                continue
            if name == "sweep":
                n, classes, _ = _sweep(A, op0[1], op0[2], ctx)
                if n:
                    ctx.fault("evict-between", n)
                    evicted_any = True
                    for c in classes:
                        ctx.probe("ghosted-between:" + c)
                ctx.ev("sweep", op0[1], n)
                continue
            if name == "scratch":
                # every up-to-date node must be evictable right now
                for o in A.conn.nodes():
                    if o._p_state == UPTODATE:
                        o._p_deactivate()
                        if o._p_state != GHOST:
                            raise Violation(
                                dict(base, oracle="not-evictable",
                                     node=_node_class(o, A.c),
                                     state=o._p_state),
                                "an up-to-date %s node refused "
                                "_p_deactivate() between operations "
                                "(state %r)" % (_node_class(o, A.c),
                                                o._p_state))
                ctx.ev("scratch")
                continue
            fault = None
            op = op0
            if name == "@cmp":
                op = op0[3]
                fault = (op0[1], op0[2])
            if name == "@loadfail":
                from ..world import SimLoadError, SimPOSKeyError
                op = op0[3]
                A.seqs.clear()
                B.seqs.clear()
                _sweep(A, "minimize", 0, ctx)
                A.conn.load_fault_exc = SimPOSKeyError \
                    if op0[2] == "poskey" else SimLoadError
                A.conn.load_fault = op0[1]
                got = _do(A, op, dom, cfg, None)
                fired = A.conn.load_fault is None
                A.conn.load_fault = None
                if not fired:
                    continue
                ctx.fault("load-fail")
                opn = op[0] if op[0] != "mod" else op[1]
                ctx.ev(opn, "load-fail", _outcome_class(got))
                sig = dict(base, op=opn, fault="load-fail")
                sticky = [o for o in A.conn.nodes() if o._p_state == STICKY]
                if sticky:
                    raise Violation(
                        dict(sig, oracle="left-sticky",
                             outcome=_outcome_class(got),
                             node=_node_class(sticky[0], A.c)),
                        "after %r -> %r (load %d failed) a %s node is still "
                        "in the sticky state" % (
                            op, got, op0[1], _node_class(sticky[0], A.c)))
                # the failed read changed nothing
                try:
                    la = ops.listing(A.c, mapping)
                    lb = ops.listing(B.c, mapping)
                except Exception as e:
                    raise Violation(dict(sig, oracle="listing-raised",
                                         exc=type(e).__name__),
                                    "listing after %r raised %r" % (op, e))
                if not ops.same_value(la, lb):
                    raise Violation(dict(sig, oracle="twin-listing"),
                                    "after %r (load failure): evicted side "
                                    "lists %r, twin %r" % (op, la[:30],
                                                           lb[:30]))
                ctx.interleaving((opn, _outcome_class(got), "load-fail"))
                continue
            if name == "@raise":
                op = op0[2]
                # count on a dry run of the (read-only) operation, then let
                # the same comparison raise on both sides
                # (comparison counts differ between the sides: keys that
                # were reloaded are new objects, and equal objects are first
                # compared by identity -- so the evicted side is its own
                # reference here)
                hook.counting()
                want = _do(A, op, dom, cfg, None)
                ncmp = hook.count
                hook.disarm()
                if ncmp == 0:
                    continue
                at = 1 + op0[1] % ncmp
                hook.arm(at, _raise)
                got = _do(A, op, dom, cfg, None)
                fired = hook.fired
                hook.disarm()
                if not fired:
                    continue
                ctx.fault("cmp-raise")
                opn = op[0] if op[0] != "mod" else op[1]
                ctx.ev(opn, "cmp-raise", _outcome_class(got))
                sig = dict(base, op=opn, fault="cmp-raise")
                if got != ("exc", "SimCompareError") and \
                        not ops.same_outcome(got, want):
                    raise Violation(
                        dict(sig, oracle="cmp-raise-outcome",
                             got=_outcome_class(got),
                             want=_outcome_class(want)),
                        "%r with comparison %d raising -> %r; without the "
                        "fault %r" % (op, at, got, want))
                sticky = [o for o in A.conn.nodes() if o._p_state == STICKY]
                if sticky:
                    raise Violation(
                        dict(sig, oracle="left-sticky",
                             outcome=_outcome_class(got),
                             node=_node_class(sticky[0], A.c)),
                        "after %r failed with %r (comparison %d of %d "
                        "raised) a %s node is still in the sticky state" % (
                            op, got, at, ncmp,
                            _node_class(sticky[0], A.c)))
                ctx.interleaving((opn, _outcome_class(got), "cmp-raise"))
                continue
            form_before = "leaf"
            if is_tree(kind):
                st_ = B.c.__getstate__()
                form_before = "empty" if st_ is None else (
                    "embedded" if len(st_) == 1 else "multi")
            # twin first (also counts the comparisons of this operation)
            hook.counting()
            want = _do(B, op, dom, cfg, None)
            ncmp = hook.count
            hook.disarm()
            info = {"n": 0, "classes": set(), "refused": 0}
            if fault is not None and ncmp > 0:
                at = 1 + fault[0] % ncmp

                def action():
                    n, classes, refused = _sweep(A, fault[1], fault[0] >> 3,
                                                 ctx)
                    info["n"] += n
                    info["classes"] |= classes
                    info["refused"] += refused
                # (a negative index: at EVERY comparison of the operation --
                # the evicted side compares reloaded key objects, so its
                # count differs from the twin's and "the last comparison"
                # cannot be named in advance)
                hook.arm(1 if fault[0] < 0 else at, action,
                         every=fault[0] < 0)
            got = _do(A, op, dom, cfg, B)
            fired = hook.fired
            hook.disarm()
            if idx < pre:
                continue
            fk = "none"
            if fault is not None and fired:
                fk = "evict-in-compare"
                if info["n"]:
                    ctx.fault("evict-in-compare", info["n"])
                    evicted_any = True
                    for c in info["classes"]:
                        ctx.probe("ghosted-in-compare:" + c)
                if info["refused"]:
                    ctx.probe("refused-because-pinned", info["refused"])
            opn = op[0] if op[0] != "mod" else op[1]
            if opn in MUTATORS:
                # what a lazy sequence yields after the container was
                # mutated under it is C15's business (any entry / an error);
                # here a held sequence is closed by the first mutation
                A.seqs.clear()
                B.seqs.clear()
            ctx.ev(opn, _outcome_class(got), _outcome_class(want), fk)
            sig = dict(base, op=opn, fault=fk)
            if fk == "evict-in-compare":
                sig["ghosted"] = "+".join(sorted(info["classes"])) or "none"
                sig["form"] = form_before
                sig["opclass"] = "delete" if opn in DELETERS else (
                    "store" if opn in MUTATORS else "read")
            if not ops.same_outcome(got, want):
                raise Violation(
                    dict(sig, oracle="twin-outcome", got=_outcome_class(got),
                         want=_outcome_class(want)),
                    "%r (fault %s): evicted side -> %r, un-evicted twin -> "
                    "%r" % (op, fk, got, want))
            # (2) nothing stays pinned
            sticky = [o for o in A.conn.nodes() if o._p_state == STICKY]
            if sticky:
                raise Violation(
                    dict(sig, oracle="left-sticky",
                         outcome=_outcome_class(got),
                         node=_node_class(sticky[0], A.c)),
                    "after %r -> %r a %s node is still in the sticky state "
                    "(pinned against eviction)" % (
                        op, got, _node_class(sticky[0], A.c)))
            quiet = plan.get("quiet", 1)
            if quiet > 1 and fk == "none" and idx % quiet and \
                    idx + 1 < len(ops_list):
                ctx.interleaving((opn, _outcome_class(got), fk))
                continue
            try:
                la = ops.listing(A.c, mapping)
                lb = ops.listing(B.c, mapping)
            except Exception as e:
                raise Violation(dict(sig, oracle="listing-raised",
                                     exc=type(e).__name__),
                                "listing after %r raised %r" % (op, e))
            if not ops.same_value(la, lb):
                raise Violation(dict(sig, oracle="twin-listing"),
                                "after %r (fault %s): evicted side lists "
                                "%r, twin %r" % (op, fk, la[:30], lb[:30]))
            if is_tree(kind) and dom.nkeys <= 64:
                try:
                    common.structural(A.c, dom, cfg, None, None,
                                      check_sizes=False, who=opn)
                except Violation as v:
                    raise Violation(dict(sig, oracle="unsound",
                                         by=v.sig.get("oracle")), v.detail)
            if evicted_any:
                ctx.nontriv((impl, kind, opn, _outcome_class(got), fk,
                             tuple(sorted(info["classes"])),
                             bool(info["refused"])))
            ctx.interleaving((opn, _outcome_class(got), fk))
    finally:
        hook.reset()
        A.seqs.clear()
        B.seqs.clear()

"""C15 -- mutating while iterating never crashes or damages the container.

Two cooperative tasks on one container, interleaved by the plan (the
scheduler): the *cursor task* owns up to three cursors -- iter(t),
iterkeys/itervalues/iteritems(min, max, ...), lazy keys()/values()/items()
sequences and slices of them -- and steps them with next(), seq[i], seq[-i],
len(seq), seq[i:j], list(seq) cut off after k elements; the *mutator task*
inserts, deletes, pops, clears, updates, and specifically empties (and
thereby unlinks), overfills (splits) or refills the very leaf a cursor is
parked on.  On stored containers a third actor commits and evicts nodes
between steps (evict-between fault).  On transient containers the scheduler
also interleaves INSIDE a mutation: a planned cursor step runs during the
n-th key comparison of the mutation (object keys of the hooked class HK) or
in the __del__ of a stored value the mutation releases (values of class FV).

Oracle: every cursor step returns entries that were present in the container
at some point of the run (a key that was a key, a value that was a value, a
pair that was a pair -- object values are unique per write, so a mismatched
pair is always recognised), or raises StopIteration, RuntimeError or
IndexError; nothing else.  The worker process must survive (a crash becomes a
violation through the runner's flight record).  At the end the container
passes _check() + the walker and lists exactly the model's contents.  The
same plans run on the ASan+UBSan build.
"""
import copy

from .. import ops, walker
from ..core import Violation, Precondition
from ..domains import Domain, is_mapping, is_tree, FAMILIES
from . import common

PROP = "C15"
SHRINK = [["build"], ["steps"]]
BUDGET = {"quick": {"plain": 24000, "asan": 4000, "max_s": 110},
          "thorough": {"plain": 600000, "asan": 100000, "max_s": 1500}}
RULE = ("one run = one seeded interleaving of 20-90 cursor steps and "
        "mutations (incl. emptying / splitting / refilling the leaf a cursor "
        "is parked on, commits and evictions) on one container; distinct "
        "non-trivial = distinct (impl, kind, cursor kind, cursor action, "
        "outcome class, what happened to the parked leaf since the cursor's "
        "previous step (nothing / changed / emptied / split / unlinked / "
        "ghosted / cleared)) tuples")
TECHNIQUE = ("deterministic simulation of two cooperative tasks (cursor "
             "stepping vs. mutation, plus cache eviction) under a seeded "
             "scheduler; per-step allowed-outcome oracle, end-state model "
             "and soundness check, crash detection, sanitizer build")
LEVEL_TEXT = ("Seeded interleavings of iterator / lazy-sequence steps with "
              "inserts, deletes, pops, clear, update and targeted emptying, "
              "splitting and refilling of the parked leaf (all families, 4 "
              "kinds, both implementations, transient and stored with "
              "commits, evictions, transaction aborts and another client's "
              "commits (+ synchronisation) under the parked cursors; on "
              "transient containers also cursor "
              "steps INSIDE a mutation: during its n-th key comparison or in "
              "the __del__ of a value it releases); every step must yield a historical "
              "entry or raise StopIteration/RuntimeError/IndexError, the "
              "process must survive, the container must end sound with the "
              "model's contents; also on the ASan+UBSan build. Sampling.")

CURSOR_KINDS_MAP = ["iter", "iterkeys", "itervalues", "iteritems", "keys",
                    "values", "items"]
CURSOR_KINDS_SET = ["iter", "keys"]


def plan(rng, tier):
    fam = rng.choice([f for f in FAMILIES if f[1] == "O"]) \
        if rng.random() < 0.55 else rng.choice(FAMILIES)
    cfg = common.draw_cfg(rng, fams=[fam], p_stored=0.25,
                          p_default_sizes=0.03)
    if cfg["internal"] == 2 and rng.random() < 0.7:
        cfg["internal"] = rng.choice([3, 4])
    cfg["dom"]["nk"] = rng.choice([12, 16, 24, 32, 48])
    cfg["dom"]["none"] = False
    pre = 0
    if cfg["leaf"] is None and is_tree(cfg["kind"]):
        cfg["dom"]["nk"] = rng.choice([300, 600])
        cfg["dom"]["ext"] = False
        pre = cfg["dom"]["nk"] // 2
    # finer interleaving: a cursor step INSIDE a mutation -- during its n-th
    # key comparison (object keys of class HK) or in the __del__ of a stored
    # value the mutation releases (values of class FV); transient containers
    cb = None
    if cfg["leaf"] is not None and rng.random() < 0.3:
        # (finalizer steps on transient containers only: DESIGN section 10;
        # comparison steps on stored ones too -- Session 4 -- where the
        # cursor step may have to load nodes the mutation is in the middle of)
        if not cfg["stored"] and fam[1] == "O" and \
                is_mapping(cfg["kind"]) and rng.random() < 0.5:
            cb = "fin"
        elif fam[0] == "O":
            cb = "cmp"
            cfg["dom"]["kflavor"] = "hk"
            cfg["dom"]["ext"] = False
    cfg["cb"] = cb
    dom = Domain(cfg["dom"])
    kind = cfg["kind"]
    mapping = is_mapping(kind)
    nk, nv = dom.nkeys, dom.nvals
    build = []
    ks = list(range(nk))
    rng.shuffle(ks)
    for k in ks[:pre or rng.randint(nk // 3, nk)]:
        build.append(["set", k, rng.randrange(nv)])
    ckinds = CURSOR_KINDS_MAP if mapping else CURSOR_KINDS_SET
    steps = []
    n = rng.randint(20, 90) if tier == "quick" else rng.choice(
        [40, 90, 200])
    open_slots = set()
    p_mut = rng.choice([0.2, 0.35, 0.5])
    for _ in range(n):
        r = rng.random()
        if not open_slots or r < 0.1:
            s = rng.randrange(3)
            b1 = rng.choice(["omit", "omit", rng.randrange(nk)])
            b2 = rng.choice(["omit", "omit", rng.randrange(nk)])
            steps.append(["c", s, "open", rng.choice(ckinds), b1, b2,
                          rng.choice([0, 0, 1]), rng.choice([0, 0, 1])])
            open_slots.add(s)
        elif r < 0.1 + p_mut:
            m = rng.random()
            s = rng.choice(sorted(open_slots))
            if cb and rng.random() < 0.5:
                # the next mutation carries a cursor step inside it
                steps.append(["cb", rng.choice(sorted(open_slots)),
                              rng.choice(["next", "next", "idx", "len",
                                          "list"]),
                              rng.randint(-nk - 1, nk), rng.randrange(8)])
            if m < 0.18:
                steps.append(["m", "@empty_parked", s])
            elif m < 0.3:
                steps.append(["m", "@split_parked", s, rng.randrange(nv)])
            elif m < 0.38:
                steps.append(["m", "@refill_parked", s, rng.randrange(nv)])
            elif m < 0.42:
                steps.append(["m", "clear"])
            elif m < 0.65:
                steps.append(["m", "set", rng.randrange(nk),
                              rng.randrange(nv)])
            elif m < 0.85:
                steps.append(["m", "del", rng.randrange(nk)])
            elif m < 0.92:
                steps.append(["m", "pop", rng.randrange(nk)])
            else:
                steps.append(["m", "update",
                              [[rng.randrange(nk), rng.randrange(nv)]
                               for _ in range(rng.randint(1, 4))]])
        elif cfg["stored"] and is_tree(kind) and r < 0.1 + p_mut + 0.015:
            # directed: a lazy sequence parked in a leaf that exists only in
            # this transaction (split off the parked leaf), the transaction
            # aborted -- the tree forgets the leaf, the sequence's finger is
            # the last thing that holds it -- and the sequence used again
            steps.append(["@orphan", rng.choice(sorted(open_slots)),
                          rng.randrange(nv), rng.randint(1, 40)])
        elif cfg["stored"] and r < 0.1 + p_mut + 0.12:
            steps.append(rng.choice([["commit"], ["commit"],
                                     ["evict", "minimize"],
                                     ["evict", "parked",
                                      rng.choice(sorted(open_slots))],
                                     # the transaction is aborted under the
                                     # cursors (changed nodes are invalidated
                                     # and come back with their committed
                                     # contents)
                                     ["abort"],
                                     # another client commits changes to the
                                     # same container; this one synchronises
                                     # (the changed nodes are invalidated
                                     # under the cursors and reload with
                                     # OTHER contents)
                                     ["remote",
                                      [rng.choice([["set", rng.randrange(nk),
                                                    rng.randrange(nv)],
                                                   ["del", rng.randrange(nk)]])
                                       for _ in range(rng.randint(1, 6))]]]))
        else:
            s = rng.choice(sorted(open_slots))
            a = rng.random()
            if a < 0.55:
                steps.append(["c", s, "next"])
            elif a < 0.75:
                steps.append(["c", s, "idx", rng.randint(-nk - 1, nk)])
            elif a < 0.82:
                steps.append(["c", s, "len"])
            elif a < 0.9:
                steps.append(["c", s, "slice",
                              rng.choice([None, rng.randint(-nk, nk)]),
                              rng.choice([None, rng.randint(-nk, nk)])])
            else:
                steps.append(["c", s, "list", rng.randint(0, nk)])
    return {"cfg": cfg, "build": build, "steps": steps}


def simplify(plan):
    if plan["cfg"].get("cb"):
        p = copy.deepcopy(plan)
        p["steps"] = [s for s in p["steps"] if s[0] != "cb"]
        yield p
    if plan["cfg"]["stored"]:
        p = copy.deepcopy(plan)
        p["cfg"]["stored"] = False
        p["steps"] = [s for s in p["steps"]
                      if s[0] not in ("commit", "evict", "abort", "remote")]
        yield p


# ---------------------------------------------------------------------------

ALLOWED = ("StopIteration", "RuntimeError", "IndexError")


class _Cursor(object):
    __slots__ = ("kind", "obj", "is_iter", "last_key", "yields")

    def __init__(self, kind, obj, is_iter):
        self.kind = kind
        self.obj = obj
        self.is_iter = is_iter
        self.last_key = None
        self.yields = "k" if kind in ("iter", "iterkeys", "keys") else (
            "v" if kind in ("itervalues", "values") else "kv")


class _Run(object):
    def __init__(self, plan, ctx):
        from .. import env
        cfg = plan["cfg"]
        env.activate(ctx.variant)
        self.cfg = cfg
        self.ctx = ctx
        self.dom = Domain(cfg["dom"])
        self.dom.set_node_sizes(cfg.get("leaf"), cfg.get("internal"))
        self.kind = cfg["kind"]
        self.impl = cfg["impl"]
        self.mapping = is_mapping(self.kind)
        self.objvals = self.dom.vcode == "O"
        self.c = self.dom.new(self.kind, self.impl)
        self.conn = None
        if cfg.get("stored"):
            from ..world import SimStorage, SimConnection
            self.conn = SimConnection(SimStorage(cfg.get("protocol", 3)),
                                      self.impl)
            self.conn.add(self.c)
        self.model = {}          # key index -> real value (or True)
        self.committed = {}
        self.ever_keys = set()
        self.ever_vals = set()
        self.ever_pairs = set()
        self.serial = 0
        self.cursors = {}
        self.leaf_event = {}     # slot -> what happened to the parked leaf
        self.cb = cfg.get("cb")
        self.pending_cb = None   # ["cb", slot, action, arg, n]
        self.cb_violation = None
        self.in_cb = False

    # -- values
    def value(self, kidx, vidx):
        self.serial += 1
        if not self.mapping:
            return True
        if self.objvals:
            if self.cb == "fin":
                from ..keys import FV
                return FV((kidx, self.serial))
            return ("v", kidx, self.serial)
        return self.dom.val(vidx)

    def vid(self, v):
        if type(v).__name__ == "FV":
            return ("fv",) + tuple(v.n)
        if isinstance(v, float) and v != v:
            return "nan"
        return v if not isinstance(v, list) else tuple(v)

    def note(self, kidx, v):
        self.ever_keys.add(kidx)
        if self.mapping:
            self.ever_vals.add(self.vid(v))
            self.ever_pairs.add((kidx, self.vid(v)))

    # -- transaction boundaries (stored containers)
    def commit(self):
        self.conn.commit()
        if self.conn.hazards:
            raise Precondition("known C04 finding: inline-duplicate")
        self.committed = dict(self.model)

    def remote(self, muts):
        """another client changes the same container and commits; this
        client (which first commits what it has) then synchronises"""
        from ..world import SimConnection
        self.commit()
        rc = SimConnection(self.conn.storage, self.impl)
        rt = rc.get(self.c._p_oid)
        for m in muts:
            kidx = m[1]
            k = self.dom.key(kidx)
            if m[0] == "set":
                v = self.value(kidx, m[2])
                self.note(kidx, v)
                if self.mapping:
                    rt[k] = v
                else:
                    rt.add(k)
                self.model[kidx] = v
            elif kidx in self.model:
                try:
                    if self.mapping:
                        del rt[k]
                    else:
                        rt.remove(k)
                except KeyError:
                    raise Violation(
                        {"oracle": "mutator", "impl": self.impl,
                         "kind": self.kind, "what": "KeyError",
                         "who": "other-client"},
                        "another client (fresh connection) does not find "
                        "key %r, which the mutations so far imply and this "
                        "client committed" % (k,))
                del self.model[kidx]
        rc.commit()
        if rc.hazards:
            raise Precondition("known C04 finding: inline-duplicate")
        self.committed = dict(self.model)
        self.conn.begin()
        for s in self.cursors:
            self.leaf_event[s] = "invalidated"

    # -- mutations (kept in step with the model)
    def set(self, kidx, vidx):
        v = self.value(kidx, vidx)
        k = self.dom.key(kidx)
        # (noted first: a cursor step inside the store may already see it)
        self.note(kidx, v)
        if self.mapping:
            self.c[k] = v
        else:
            self.c.add(k)
        self.model[kidx] = self.vid(v) if self.cb == "fin" else v
        v = None

    def delete(self, kidx):
        k = self.dom.key(kidx)
        try:
            if self.mapping:
                del self.c[k]
            else:
                self.c.remove(k)
        except KeyError:
            if kidx in self.model:
                raise Violation({"oracle": "mutator", "impl": self.impl,
                                 "kind": self.kind, "what": "KeyError"},
                                "del of a present key raised KeyError")
            return
        if kidx not in self.model:
            raise Violation({"oracle": "mutator", "impl": self.impl,
                             "kind": self.kind, "what": "phantom-delete"},
                            "del of an absent key succeeded")
        del self.model[kidx]

    def parked_leaf_keys(self, slot):
        """key indices of the leaf the cursor is parked on (by its last
        yielded key), and the key range of that leaf"""
        cur = self.cursors.get(slot)
        if cur is None or cur.last_key is None:
            ks = sorted(self.model)
            return ks[:max(1, len(ks) // 3)], None
        if not is_tree(self.kind):
            return sorted(self.model), None
        try:
            w = walker.walk(self.c, self.dom, self.mapping)
        except Exception:
            return [], None
        for i, b in enumerate(w.leaves):
            ks = [self.dom.index_of(k) for k in b.keys()]
            if cur.last_key in ks:
                nxt = None
                if i + 1 < len(w.leaves):
                    nk = list(w.leaves[i + 1].keys())
                    nxt = self.dom.index_of(nk[0]) if nk else None
                return ks, nxt
        return [], None

    def _callback_step(self, *ignored):
        """a cursor step from inside a mutation; never raises"""
        if self.in_cb or self.pending_cb is None:
            return
        _, slot, action, arg, _n = self.pending_cb
        self.pending_cb = None
        self.in_cb = True
        try:
            st = ["c", slot, action]
            if action in ("idx", "list"):
                st.append(abs(arg) if action == "list" else arg)
            out = self.cursor_step(st)
            self.ctx.fault("step-in-" + ("finalizer" if self.cb == "fin"
                                         else "comparison"))
            self.ctx.interleaving(("cb", self.cb, action, out))
        except Violation as v:
            if self.cb_violation is None:
                v.sig["in_callback"] = self.cb
                self.cb_violation = v
        except BaseException:
            pass
        finally:
            self.in_cb = False

    def mutate(self, step):
        from .. import keys
        if self.pending_cb is None or self.cb is None:
            return self._mutate(step)
        if self.cb == "cmp":
            keys.HOOK.arm(1 + self.pending_cb[4], self._callback_step)
        else:
            keys.FINAL.action = self._callback_step
        try:
            self._mutate(step)
        finally:
            keys.HOOK.disarm()
            keys.FINAL.action = None
            self.pending_cb = None
        if self.cb_violation is not None:
            v, self.cb_violation = self.cb_violation, None
            raise v

    def _mutate(self, step):
        name = step[1]
        if name == "set":
            self.set(step[2], step[3])
        elif name == "del":
            self.delete(step[2])
        elif name == "pop":
            if self.mapping and step[2] in self.model:
                k = self.dom.key(step[2])
                self.c.pop(k)
                del self.model[step[2]]
            else:
                self.delete(step[2])
        elif name == "clear":
            self.c.clear()
            self.model.clear()
            for s in self.cursors:
                self.leaf_event[s] = "cleared"
        elif name == "update":
            for k, v in step[2]:
                self.set(k, v)
        elif name == "@empty_parked":
            ks, _ = self.parked_leaf_keys(step[2])
            for k in ks:
                if k in self.model:
                    self.delete(k)
            self.leaf_event[step[2]] = "emptied"
        elif name == "@split_parked":
            ks, nxt = self.parked_leaf_keys(step[2])
            if ks:
                lo = min(ks)
                hi = nxt if nxt is not None else self.dom.nkeys
                n = 0
                for k in range(lo, hi):
                    if k not in self.model:
                        self.set(k, step[3])
                        n += 1
                if n:
                    self.leaf_event[step[2]] = "split"
        elif name == "@refill_parked":
            ks, nxt = self.parked_leaf_keys(step[2])
            if ks:
                k = min(ks)
                for kk in (k - 1, k + 1, k):
                    if 0 <= kk < self.dom.nkeys:
                        self.set(kk, step[3])
                self.leaf_event[step[2]] = "changed"
        else:
            raise ValueError(name)
        for s in self.cursors:
            self.leaf_event.setdefault(s, "changed")

    def orphan(self, step):
        slot = step[1]
        cur = self.cursors.get(slot)
        if cur is None or cur.is_iter or not is_tree(self.kind):
            return "not-applicable"
        self.commit()
        w = walker.walk(self.c, self.dom, self.mapping)
        before = set(id(b) for b in w.leaves)
        w = None
        self.mutate(["m", "@split_parked", slot, step[2]])
        w = walker.walk(self.c, self.dom, self.mapping)
        n = len(w.leaves)
        new = [[self.dom.index_of(k) for k in b.keys()]
               for i, b in enumerate(w.leaves)
               if id(b) not in before and i < n - 1]
        w = None        # (the walk must not keep the leaves alive)
        new = [ks for ks in new if ks]
        if not new:
            return "no-new-leaf"
        r = sorted(self.model).index(new[0][0])
        self.cursor_step(["c", slot, "idx", r])
        self.conn.abort()
        self.model = dict(self.committed)
        for s in self.cursors:
            self.leaf_event[s] = "aborted"
        self.ctx.fault("abort-under-cursor")
        self.ctx.probe("cursor-on-orphaned-leaf")
        out = self.cursor_step(["c", slot, "slice", r, r + step[3]])
        self.cursor_step(["c", slot, "idx", r])
        return out

    # -- cursor side
    def check_entry(self, cur, e, sig, what):
        dom = self.dom
        y = cur.yields

        def bad(msg):
            raise Violation(dict(sig, oracle="garbage-entry", yields=y),
                            "%s: %s yielded %r: %s" % (what, cur.kind, e,
                                                       msg))
        if y == "k":
            ki = dom.index_of(e)
            if ki is None or ki not in self.ever_keys:
                bad("never a key of this container")
            cur.last_key = ki
        elif y == "v":
            try:
                ok = self.vid(e) in self.ever_vals
            except TypeError:
                ok = False
            if not ok:
                bad("never a value of this container")
        else:
            if not isinstance(e, tuple) or len(e) != 2:
                bad("not a pair")
            ki = dom.index_of(e[0])
            try:
                ok = ki is not None and (ki, self.vid(e[1])) in \
                    self.ever_pairs
            except TypeError:
                ok = False
            if not ok:
                bad("this key never had this value")
            cur.last_key = ki

    def cursor_step(self, step):
        slot, action = step[1], step[2]
        dom = self.dom
        c = self.c
        sig = {"impl": self.impl, "kind": self.kind, "action": action}
        if action == "open":
            kindc, b1, b2, e1, e2 = step[3:8]
            kw = {}
            if b1 != "omit":
                kw["min"] = dom.key(b1)
            if b2 != "omit":
                kw["max"] = dom.key(b2)
            if e1:
                kw["excludemin"] = True
            if e2:
                kw["excludemax"] = True
            try:
                if kindc == "iter":
                    obj, is_iter = iter(c), True
                elif kindc.startswith("iter"):
                    obj, is_iter = getattr(c, kindc)(**kw), True
                else:
                    obj, is_iter = getattr(c, kindc)(**kw), False
            except (TypeError, ValueError):
                return "open-failed"
            self.cursors[slot] = _Cursor(kindc, obj, is_iter)
            self.leaf_event.pop(slot, None)
            return "opened"
        cur = self.cursors.get(slot)
        if cur is None:
            return "no-cursor"
        sig["cursor"] = cur.kind
        ev = self.leaf_event.pop(slot, "nothing")
        try:
            if action == "next":
                if cur.is_iter:
                    e = next(cur.obj)
                else:
                    # a lazy sequence is stepped through its own iterator
                    cur.obj = iter(cur.obj)
                    cur.is_iter = True
                    e = next(cur.obj)
                self.check_entry(cur, e, sig, "next")
                out = "entry"
            elif cur.is_iter:
                return "skip"
            elif action == "idx":
                e = cur.obj[step[3]]
                self.check_entry(cur, e, sig, "seq[%d]" % step[3])
                out = "entry"
            elif action == "len":
                n = len(cur.obj)
                if not isinstance(n, int) or n < 0:
                    raise Violation(dict(sig, oracle="bad-len"),
                                    "len -> %r" % (n,))
                out = "len"
            elif action == "slice":
                sub = cur.obj[step[3]:step[4]]
                for e in list(sub):
                    self.check_entry(cur, e, sig, "slice")
                out = "slice"
            elif action == "list":
                it = iter(cur.obj)
                for _ in range(step[3]):
                    try:
                        e = next(it)
                    except StopIteration:
                        break
                    self.check_entry(cur, e, sig, "list")
                out = "list"
            else:
                raise ValueError(action)
        except Violation:
            raise
        except Exception as e:
            name = type(e).__name__
            if name not in ALLOWED or (name == "StopIteration" and
                                       action != "next"):
                raise Violation(dict(sig, oracle="wrong-exception",
                                     exc=name),
                                "%s step %r after the parked leaf was %s "
                                "raised %r" % (cur.kind, step, ev, e))
            out = name
        self.ctx.nontriv((self.impl, self.kind, cur.kind, action, out, ev))
        self.ctx.interleaving((cur.kind, action, out, ev))
        if ev != "nothing":
            self.ctx.probe("parked-leaf-" + ev)
        if out == "RuntimeError":
            self.ctx.probe("size-change-error-seen")
        return out


def execute(plan, ctx):
    run = _Run(plan, ctx)
    cfg = plan["cfg"]
    for op in plan["build"]:
        run.set(op[1], op[2])
    if run.conn is not None:
        run.commit()
    for step in plan["steps"]:
        t = step[0]
        if t == "cb":
            run.pending_cb = step
            continue
        if t == "m":
            run.mutate(step)
            ctx.ev("m", step[1])
            ctx.fault("mutate-under-cursor")
        elif t == "c":
            out = run.cursor_step(step)
            ctx.ev("c", step[1], step[2], out)
        elif t == "@orphan":
            if run.conn is not None:
                ctx.ev("orphan", run.orphan(step))
        elif t == "commit":
            if run.conn is not None:
                run.commit()
                ctx.ev("commit")
        elif t == "abort":
            if run.conn is not None:
                run.conn.abort()
                run.model = dict(run.committed)
                for s in run.cursors:
                    run.leaf_event[s] = "aborted"
                ctx.fault("abort-under-cursor")
                ctx.ev("abort")
        elif t == "remote":
            if run.conn is not None:
                run.remote(step[1])
                ctx.fault("remote-commit-under-cursor")
                ctx.ev("remote")
        elif t == "evict":
            if run.conn is not None:
                if step[1] == "parked":
                    n = run.conn.sweep("deactivate", None)
                    for s in run.cursors:
                        run.leaf_event.setdefault(s, "ghosted")
                else:
                    n = run.conn.sweep("minimize")
                if n:
                    ctx.fault("evict-between", n)
                ctx.ev("evict", n)
    run.cursors.clear()
    # end state: sound and exactly the model's contents
    kind, impl = run.kind, run.impl
    want = [(run.dom.key(k), run.model[k]) if run.mapping else run.dom.key(k)
            for k in sorted(run.model)]
    base = {"impl": impl, "kind": kind}
    try:
        got = ops.listing(run.c, run.mapping)
    except Exception as e:
        raise Violation(dict(base, oracle="end-listing-raised",
                             exc=type(e).__name__),
                        "listing the container at the end raised %r" % (e,))
    if run.cb == "fin" and run.mapping:
        got = [(k, run.vid(v)) for k, v in got]
    if not ops.same_value(got, want):
        raise Violation(dict(base, oracle="end-contents"),
                        "at the end the container lists %r, model %r" % (
                            got[:30], want[:30]))
    if is_tree(kind):
        try:
            common.structural(run.c, run.dom, cfg, None, None,
                              check_sizes=False, who="end")
        except Violation as v:
            raise Violation(dict(base, oracle="end-unsound",
                                 by=v.sig.get("oracle")), v.detail)

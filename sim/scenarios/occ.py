"""C08 -- concurrent transactions on a tree merge, serialize or conflict --
nothing else.

World: a base tree of a sampled shape is committed; 2 or 3 (20 % quick, 40 %
thorough) clients open connections at the same snapshot and each runs a
short transaction (insert, delete, value change, setdefault, pop, update,
clear -- with symbolic operations that aim at the dangerous spots of the
*actual* base shape: delete the smallest key of leaf j, insert just above it,
empty leaf j, overfill leaf j).  The scheduler picks the commit order; every
plan is run in the planned and in the reversed order.

Oracle for committer i (i >= 2) with S = stored listing before its commit,
B = base listing, D_i = net key-level change of T_i on B:
  * the commit raises a conflict error and a fresh connection still lists S
    in a sound tree, or
  * a fresh connection's tree passes _check() + check.check() + the walker,
    every listed key is found by lookup, and the listing equals T_i(S)
    (operations re-executed as total functions) or S (+) D_i where D_i
    touches none of the keys changed between B and S.
Read-dependency monitor: every operation that changes a stored tree must
declare (readCurrent) or register as changed every committed interior node
on the key's descent path; pure reads declare and register nothing.
"""
import copy

from .. import ops, walker
from ..core import Violation, Precondition
from ..domains import Domain, is_mapping
from . import common

PROP = "C08"
SHRINK = [["base"], ["txns", "*"], ["rounds"], ["rounds", "*"],
          ["rounds", "*", "*", 1]]
BUDGET = {"quick": {"plain": 14000, "max_s": 100},
          "thorough": {"plain": 400000, "max_s": 1500}}
RULE = ("one run = one committed base tree + 2-3 concurrent short "
        "transactions from one snapshot, committed in the planned and the "
        "reversed order; outcome oracle on a fresh connection after every "
        "commit plus the read-dependency monitor on every operation; "
        "distinct non-trivial = distinct (impl, kind, base shape signature, "
        "structural class of each transaction, outcome of each later commit) "
        "tuples with at least one later commit that reached conflict "
        "detection (resolver call, write conflict or read conflict)")
TECHNIQUE = ("deterministic simulation of optimistic concurrency: "
             "concurrent clients on an MVCC storage stub with seeded "
             "transactions, rounds, synchronisation points and commit "
             "order; serial-or-disjoint-merge "
             "outcome oracle on a fresh connection, read-dependency monitor")
LEVEL_TEXT = ("Seeded base shapes (heights 1-4, small and default node "
              "sizes, all families, BTree and TreeSet, both "
              "implementations) x seeded pairs/triples of short concurrent "
              "transactions aimed at the base shape's leaves, both commit "
              "orders, through the simulated MVCC storage with conflict "
              "resolution and read-current checks; outcome must be "
              "conflict, serial result or disjoint merge, in a sound tree "
              "whose every listed key is reachable; every write must "
              "declare its committed interior descent path, reads nothing. "
              "A third of the plans go on for several rounds (snapshots 1-4 "
              "commits old, partly invalidated caches, retries after "
              "conflicts; oracle per client snapshot); in-place set "
              "operators inside the transactions; user subclasses. "
              "Sampling.")

WRITES = ("set", "del", "insert", "setdefault", "pop", "popd", "popitem",
          "update", "add", "sinsert", "remove", "discard", "spop",
          "supdate", "ior", "iand", "isub", "ixor")
INPLACE = ("ior", "iand", "isub", "ixor")
READS = ("get", "getd", "getitem", "in", "has_key", "len", "bool", "iter",
         "keys", "values", "items", "minKey", "maxKey", "range")


def _txn(rng, g, nkeys, nvals, mapping, focus=None):
    out = []
    for _ in range(rng.choice([1, 1, 2, 2, 3, 4])):
        r = rng.random()
        if focus is not None and r < 0.75:
            # all clients work on the same leaf: leaf-level merges
            m = rng.random()
            if m < 0.4:
                out.append(["@leaf_ins", focus, rng.randrange(8),
                            rng.randrange(nvals)])
            elif m < 0.7 and mapping:
                out.append(["@leaf_set", focus, rng.randrange(8),
                            rng.randrange(nvals)])
            else:
                out.append(["@leaf_del", focus, rng.randrange(8)])
            continue
        if r < 0.16:
            out.append(["@leafmin_del", rng.randrange(64)])
        elif r < 0.30:
            out.append(["@ins_after_leafmin", rng.randrange(64),
                        rng.randrange(nvals)])
        elif r < 0.36:
            out.append(["@leaf_empty", rng.randrange(64)])
        elif r < 0.42:
            out.append(["@leaf_fill", rng.randrange(64),
                        rng.randrange(nvals)])
        elif r < 0.43:
            # a node changed and changed back inside one transaction: fill a
            # leaf until it splits, then delete everything the new leaf got
            # (it is unlinked again; the parent is registered with the
            # state it had, the old leaf keeps a lasting change)
            out.append(["@split_unsplit", rng.randrange(64),
                        rng.randrange(nvals)])
        elif r < 0.46:
            out.append(["clear"])
        elif r < 0.52:
            # a pure read inside the transaction (monitor: declares nothing)
            k = rng.randrange(nkeys)
            out.append(rng.choice([["get", k], ["in", k], ["len"],
                                   ["minKey"], ["maxKey", k], ["keys"],
                                   ["range", "keys", k, "omit", 0, 0, "kw"]]))
        elif mapping:
            k = rng.randrange(nkeys)
            v = rng.randrange(nvals)
            out.append(rng.choice([["set", k, v], ["set", k, v], ["del", k],
                                   ["setdefault", k, v], ["pop", k],
                                   ["popd", k, v], ["popitem"],
                                   ["insert", k, v],
                                   ["update", [[k, v], [(k + 1) % nkeys, v]],
                                    "list"]]))
        else:
            k = rng.randrange(nkeys)
            out.append(rng.choice([["add", k], ["add", k], ["remove", k],
                                   ["discard", k], ["spop"], ["sinsert", k],
                                   ["supdate", [k, (k + 1) % nkeys],
                                    "list"]]))
    if not mapping and rng.random() < 0.12:
        # one in-place set operator (at most one per transaction, so that a
        # signature can name it)
        name = rng.choice(INPLACE)
        if name == "iand":
            # keep most keys: an intersection with a large operand
            ks = [k for k in range(nkeys) if rng.random() < 0.8]
        else:
            ks = sorted(set(rng.randrange(nkeys)
                            for _ in range(rng.randint(1, 5))))
        out.insert(rng.randrange(len(out) + 1),
                   [name, ks, rng.choice(["list", "Set", "TreeSet"])])
    return out


def plan(rng, tier):
    cfg = common.draw_cfg(rng, kinds=("BTree", "TreeSet"), p_stored=1.0,
                          p_default_sizes=0.05, p_sub=0.1)
    cfg["stored"] = True
    if cfg["internal"] == 2 and rng.random() < 0.6:
        cfg["internal"] = rng.choice([3, 4])
    cfg["dom"]["nk"] = rng.choice([8, 12, 16, 24, 32, 48])
    cfg["dom"]["ext"] = False
    pre = 0
    if cfg["leaf"] is None:
        cfg["dom"]["nk"] = rng.choice([300, 600])
        pre = cfg["dom"]["nk"] * 3 // 4
    dom = Domain(cfg["dom"])
    kind = cfg["kind"]
    mapping = is_mapping(kind)
    g = common.Gen(rng, dom, kind)
    base = []
    if pre:
        base.extend(g.fill(pre))
    else:
        base.extend(g.fill(rng.randint(1, dom.nkeys)))
        if rng.random() < 0.5:
            for _ in range(rng.randint(1, 4)):
                ks = g.model.skeys()
                if len(ks) < 2:
                    break
                a = rng.randrange(len(ks))
                for k in ks[a:a + rng.randint(1, max(1, len(ks) // 3))]:
                    op = ["del" if mapping else "remove", k]
                    g.model.apply(op)
                    base.append(op)
    n = 3 if rng.random() < (0.2 if tier == "quick" else 0.4) else 2
    if tier != "quick" and rng.random() < 0.15:
        n = rng.choice([4, 5])
    focus = rng.randrange(64) if rng.random() < 0.4 else None
    txns = [_txn(rng, g, dom.nkeys, dom.nvals, mapping, focus)
            for _ in range(n)]
    order = list(range(n))
    rng.shuffle(order)
    rounds = None
    if rng.random() < 0.35:
        # a longer concurrent history: several rounds; in every round some
        # clients run one more transaction on whatever snapshot they have
        # (optionally synchronised first) and commit in a planned order, so
        # that snapshots several commits old, warm caches invalidated in part
        # and retries after a conflict occur
        rounds = []
        for _ in range(rng.choice([2, 2, 3, 4] if tier == "quick"
                                  else [2, 3, 4, 6, 8])):
            acts = []
            for i in range(n):
                if rng.random() < 0.75:
                    acts.append([i, _txn(rng, g, dom.nkeys, dom.nvals,
                                         mapping, focus),
                                 rng.random() < 0.5,
                                 rng.choice(["none", "none", "minimize",
                                             "incrgc"])])
            rng.shuffle(acts)
            rounds.append(acts)
    plan_ = {"cfg": cfg, "base": base, "txns": txns, "order": order,
             "commit_every": rng.choice([0, 0, 1, 3]),
             "evict": rng.random() < 0.3,
             # bit i: client i is "cold" -- nothing but its own operations
             # ever touches its nodes (the monitor looks at a shadow)
             "cold": rng.randrange(8) if rng.random() < 0.6 else 0}
    if rounds is not None:
        plan_["rounds"] = rounds
        # after each of its commits / conflicts the client's OWN tree must
        # list what is stored now (it then stands on the newest snapshot);
        # only in half of the plans: listing warms the client's cache
        plan_["viewcheck"] = rng.random() < 0.5
    return plan_


def simplify(plan):
    if plan.get("rounds"):
        for r in range(len(plan["rounds"])):
            for a in range(len(plan["rounds"][r])):
                act = plan["rounds"][r][a]
                if act[2] or act[3] != "none":
                    p = copy.deepcopy(plan)
                    p["rounds"][r][a][2] = False
                    p["rounds"][r][a][3] = "none"
                    yield p
    if plan.get("cold"):
        p = copy.deepcopy(plan)
        p["cold"] = 0
        yield p
    if plan.get("evict"):
        p = copy.deepcopy(plan)
        p["evict"] = False
        yield p
    if len(plan["txns"]) > 2:
        for i in range(len(plan["txns"])):
            p = copy.deepcopy(plan)
            del p["txns"][i]
            p["order"] = [o - (1 if o > i else 0) for o in p["order"]
                          if o != i]
            yield p


# ---------------------------------------------------------------------------

def _resolve_symbolic(txn, base_walk, dom, mapping, model_d, max_leaf=None):
    """turn @-operations into concrete ones using the base tree's leaves"""
    leaves = []
    for b in base_walk.leaves:
        ks = list(b.keys())
        leaves.append([dom.index_of(k) for k in ks])
    out = []
    for op in txn:
        name = op[0]
        if not name.startswith("@"):
            out.append(op)
            continue
        if not leaves:
            continue
        lf = leaves[op[1] % len(leaves)]
        if name == "@leafmin_del":
            out.append(["del" if mapping else "remove", lf[0]])
        elif name == "@ins_after_leafmin":
            hi = lf[1] if len(lf) > 1 else lf[0] + 3
            cand = [k for k in range(lf[0] + 1, min(hi, dom.nkeys))
                    if k not in model_d]
            if cand:
                out.append(["set", cand[0], op[2]] if mapping
                           else ["add", cand[0]])
        elif name == "@leaf_ins":
            j = op[1] % len(leaves)
            hi = leaves[j + 1][0] if j + 1 < len(leaves) else dom.nkeys
            lo = leaves[j - 1][-1] + 1 if j > 0 else 0
            cand = [k for k in range(lo, hi) if k not in model_d]
            if cand:
                k = cand[op[2] % len(cand)]
                out.append(["set", k, op[3]] if mapping else ["add", k])
        elif name == "@leaf_set":
            out.append(["set", lf[op[2] % len(lf)], op[3]])
        elif name == "@leaf_del":
            out.append(["del" if mapping else "remove",
                        lf[op[2] % len(lf)]])
        elif name == "@leaf_empty":
            for k in lf:
                out.append(["del" if mapping else "remove", k])
        elif name == "@split_unsplit" and max_leaf:
            j = op[1] % len(leaves)
            hi = leaves[j + 1][0] if j + 1 < len(leaves) else dom.nkeys
            free = [k for k in range(lf[-1] + 1, hi) if k not in model_d]
            need = max_leaf + 1 - len(lf)
            if 0 < need <= len(free):
                ins = free[:need]
                allk = sorted(lf + ins)
                upper = allk[len(allk) // 2:]
                for k in ins:
                    out.append(["set", k, op[2]] if mapping else ["add", k])
                for k in reversed(upper):
                    out.append(["del" if mapping else "remove", k])
        elif name == "@leaf_fill":
            j = op[1] % len(leaves)
            lo = lf[0]
            hi = leaves[j + 1][0] if j + 1 < len(leaves) else dom.nkeys
            for k in range(lo, hi):
                if k not in model_d:
                    out.append(["set", k, op[2]] if mapping else ["add", k])
    return out


def _bulk(sig, concrete):
    names = sorted(set(o[0] for o in concrete if o[0] in INPLACE))
    if names:
        sig["bulk"] = "+".join(names)


def _total(model, op):
    """execute op on the model as a total function (errors are no-ops)"""
    model.apply(op)


def _diff(b, t):
    """net key-level change from dict b to dict t: {k: value or None}"""
    d = {}
    for k in t:
        if k not in b or b[k] != t[k]:
            d[k] = t[k]
    for k in b:
        if k not in t:
            d[k] = None
    return d


def _apply_diff(s, d):
    r = dict(s)
    for k, v in d.items():
        if v is None:
            r.pop(k, None)
        else:
            r[k] = v
    return r


def _listing_of(dom, d, mapping):
    if mapping:
        return [(dom.key(k), dom.val(d[k])) for k in sorted(d)]
    return [dom.key(k) for k in sorted(d)]


def _struct_class(trans, concrete):
    names = set(o[0] for o in concrete)
    cls = set(trans)
    if "clear" in names:
        cls.add("clear")
    if not cls:
        cls.add("leaf-local" if names & set(WRITES) else "read-only")
    return tuple(sorted(cls))


def _run_txn(conn, tree, concrete, dom, cfg, ctx, who, shadow=None):
    """apply the ops with the read-dependency monitor; -> transition set.
    With a shadow (a second connection at the same snapshot that mirrors the
    operations and is never committed) everything the monitor has to look at
    -- listings, descent paths, shapes -- is read from the shadow, so that
    the client's own nodes stay ghosts until its operations reach them (a
    client whose very first access is a write)."""
    impl, kind = cfg["impl"], cfg["kind"]
    mapping = is_mapping(kind)
    trans = set()
    prev = None
    small = dom.nkeys <= 64
    client_tree = tree
    if shadow is not None:
        tree = shadow       # the monitor's view
        ctx.probe("cold-client")
    for op in concrete:
        name = op[0]
        before = ops.listing(tree, mapping) if small else None
        path = None
        if name in ("popitem", "spop"):
            # they remove the smallest key: the leftmost descent
            try:
                if len(tree):
                    path = walker.descent_path(tree, tree.minKey(), dom)
            except Exception:
                path = None
        elif name in WRITES and name not in ("update", "supdate") and \
                name not in INPLACE:
            try:
                path = walker.descent_path(tree, dom.key(op[1]), dom)
            except Exception:
                path = None
        mark = len(conn.log)
        got = ops.apply(client_tree, op, dom, impl, kind)
        entries = conn.log[mark:]
        if shadow is not None:
            ops.apply(shadow, op, dom, impl, kind)
        ctx.ev(who, name, got[0], got[1] if got[0] == "exc" else None)
        # declared so far in this transaction (an object that is already
        # registered as changed is not declared again)
        declared = set(conn.read_current) | set(
            o._p_oid for o in conn.registered)
        if name in READS:
            if entries:
                raise Violation(
                    {"oracle": "read-declares", "impl": impl, "kind": kind,
                     "op": name, "what": sorted(set(e[0] for e in entries))[0]},
                    "%s: pure read %r declared %r" % (who, op, entries[:4]))
            ctx.probe("monitor-read")
        elif path is not None and small:
            after = ops.listing(tree, mapping)
            if not ops.same_value(before, after):
                for node in path:
                    oid = node._p_oid
                    if oid is None or node._p_serial == b"\0" * 8:
                        continue    # not committed yet: nothing to declare
                    if oid not in declared:
                        raise Violation(
                            {"oracle": "write-undeclared", "impl": impl,
                             "kind": kind, "op": name,
                             "depth": path.index(node),
                             "pathlen": len(path)},
                            "%s: write %r changed the tree but did not "
                            "declare interior node %r (depth %d of %d) as "
                            "read-current or changed; declared: %r" % (
                                who, op, oid, path.index(node), len(path),
                                entries[:8]))
                ctx.probe("monitor-write")
                ctx.probe("monitor-write-depth-%d" % min(len(path), 5))
        if small:
            try:
                wk = walker.walk(tree, dom, mapping)
                for t in walker.transitions(prev, wk):
                    trans.add(t)
                prev = wk
            except Exception:
                pass
    return trans


def _fresh_check(st, oid, dom, cfg, allowed, who, ctx, sigbase):
    """-> listing index; raises Violation"""
    from ..world import SimConnection
    kind = cfg["kind"]
    mapping = is_mapping(kind)
    r = SimConnection(st, cfg["impl"])
    t = r.get(oid)
    try:
        got = ops.listing(t, mapping)
    except Exception as e:
        raise Violation(dict(sigbase, what="listing-raised",
                             exc=type(e).__name__),
                        "%s: fresh connection cannot list the tree: %r" % (
                            who, e))
    try:
        common.structural(t, dom, cfg, None, None, check_sizes=False,
                          who=who)
    except Violation as v:
        raise Violation(dict(sigbase, what="unsound",
                             by=v.sig.get("oracle")),
                        "%s: %s\n listing %r" % (who, v.detail, got[:40]))
    keys = [x[0] for x in got] if mapping else got
    for k in keys:
        if k not in t:
            raise Violation(dict(sigbase, what="unreachable"),
                            "%s: key %r is listed but lookup does not find "
                            "it" % (who, k))
    if len(t) != len(got):
        raise Violation(dict(sigbase, what="len"), "%s: len" % who)
    for label, d in allowed:
        if ops.same_value(got, _listing_of(dom, d, mapping)):
            return label, d
    raise Violation(dict(sigbase, what="contents"),
                    "%s: stored tree lists %r\n allowed: %s" % (
                        who, got[:40], "\n          ".join(
                            "%s: %r" % (lb, _listing_of(dom, d, mapping)[:40])
                            for lb, d in allowed)))


def _one_order(plan, order, ctx, tag):
    from ..world import (SimStorage, SimConnection, ConflictError,
                         ReadConflictError)
    cfg = plan["cfg"]
    dom = Domain(cfg["dom"])
    dom.set_node_sizes(cfg.get("leaf"), cfg.get("internal"))
    impl, kind = cfg["impl"], cfg["kind"]
    mapping = is_mapping(kind)
    st = SimStorage(cfg.get("protocol", 3))
    c0 = SimConnection(st, impl)
    t0 = dom.new(kind, impl)
    oid = c0.add(t0)
    bm = ops.Model(dom, kind)
    every = plan.get("commit_every", 0)
    for i, op in enumerate(plan["base"]):
        bm.apply(op)
        ops.apply(t0, op, dom, impl, kind)
        if every and i % every == 0:
            c0.commit()
    c0.commit()
    if c0.hazards:
        ctx.probe("abandoned:known-C04-inline-duplicate")
        raise Precondition("known C04 finding: inline-duplicate")
    B = dict(bm.d)
    if not ops.same_value(ops.listing(t0, mapping),
                          _listing_of(dom, B, mapping)):
        raise Precondition("base differs from model")
    base_walk = walker.walk(t0, dom, mapping)
    ctx.shape(base_walk.shape)
    # clients
    clients = []
    for i, txn in enumerate(plan["txns"]):
        conn = SimConnection(st, impl)
        tree = conn.get(oid)
        concrete = _resolve_symbolic(txn, base_walk, dom, mapping, B,
                                     common.sizes(cfg)[0])
        shadow = None
        if (plan.get("cold", 0) >> i) & 1:
            shadow = SimConnection(st, impl).get(oid)
        clients.append({"conn": conn, "tree": tree, "ops": concrete,
                        "shadow": shadow})
    for i, cl in enumerate(clients):
        if plan.get("evict") and i % 2 == 1:
            cl["conn"].sweep("minimize")
        cl["trans"] = _run_txn(cl["conn"], cl["tree"], cl["ops"], dom, cfg,
                               ctx, "%s-t%d" % (tag, i), cl["shadow"])
        m = ops.Model(dom, kind)
        m.d = dict(B)
        for op in cl["ops"]:
            _total(m, op)
        cl["delta"] = _diff(B, m.d)
        cl["class"] = _struct_class(cl["trans"], cl["ops"])
    S = dict(B)
    outcomes = []
    nres0 = 0
    for pos, i in enumerate(order):
        if i >= len(clients):
            continue
        cl = clients[i]
        sigbase = {"oracle": "occ-outcome", "impl": impl, "kind": kind,
                   "pos": min(pos, 2)}
        _bulk(sigbase, cl["ops"])
        m = ops.Model(dom, kind)
        m.d = dict(S)
        for op in cl["ops"]:
            _total(m, op)
        serial = m.d
        changed_so_far = set(_diff(B, S))
        merged = None
        if not (set(cl["delta"]) & changed_so_far):
            merged = _apply_diff(S, cl["delta"])
        try:
            cl["conn"].commit()
            out = "committed"
        except ReadConflictError:
            out = "read-conflict"
        except ConflictError:
            out = "write-conflict"
        if cl["conn"].hazards:
            ctx.probe("abandoned:known-C04-inline-duplicate")
            raise Precondition("known C04 finding: inline-duplicate")
        nres = len(st.resolver_log)
        resolved = nres > nres0
        if out == "committed" and resolved:
            out = "resolved"
        elif out == "write-conflict" and resolved:
            rec = st.resolver_log[-1]
            oc = rec.get("outcome", ("?",))
            out = "write-conflict-r%s" % (oc[2] if len(oc) > 2 else "x")
        nres0 = nres
        ctx.ev(tag, "commit", i, out)
        if pos > 0:
            ctx.fault("concurrent-commit")
        who = "%s: client %d committing as #%d (%s)" % (tag, i, pos + 1, out)
        if out.endswith("conflict") or "conflict-r" in out:
            if pos == 0:
                raise Violation(dict(sigbase, what="first-commit-conflict"),
                                who + ": the first committer conflicted")
            allowed = [("unchanged", S)]
        else:
            allowed = [("serial", serial)]
            if merged is not None:
                allowed.append(("merge", merged))
        label, d = _fresh_check(st, oid, dom, cfg, allowed, who, ctx,
                                sigbase)
        if label in ("serial", "merge") and pos > 0:
            ctx.probe("matched-" + label)
        S = dict(d)
        outcomes.append(out)
        ctx.probe("outcome-" + out)
    interesting = any(o != "committed" for o in outcomes[1:])
    ctx.interleaving((tuple(outcomes), tuple(c["class"] for c in clients)))
    if interesting:
        ctx.nontriv((impl, kind, base_walk.shape,
                     tuple(c["class"] for c in clients), tuple(outcomes)))


def _long_run(plan, ctx):
    """several rounds of concurrent transactions (see plan()): client i works
    on the snapshot B_i it has; oracle for its commit with S the stored
    contents right before: conflict (S unchanged; only if something was
    committed since its snapshot), or T_i(S), or S (+) D_i with D_i the net
    change of T_i on B_i and disjoint from the keys changed between B_i and
    S."""
    from ..world import (SimStorage, SimConnection, ConflictError,
                         ReadConflictError)
    cfg = plan["cfg"]
    dom = Domain(cfg["dom"])
    dom.set_node_sizes(cfg.get("leaf"), cfg.get("internal"))
    impl, kind = cfg["impl"], cfg["kind"]
    mapping = is_mapping(kind)
    st = SimStorage(cfg.get("protocol", 3))
    c0 = SimConnection(st, impl)
    t0 = dom.new(kind, impl)
    oid = c0.add(t0)
    bm = ops.Model(dom, kind)
    every = plan.get("commit_every", 0)
    for i, op in enumerate(plan["base"]):
        bm.apply(op)
        ops.apply(t0, op, dom, impl, kind)
        if every and i % every == 0:
            c0.commit()
    c0.commit()
    if c0.hazards:
        ctx.probe("abandoned:known-C04-inline-duplicate")
        raise Precondition("known C04 finding: inline-duplicate")
    S = dict(bm.d)
    if not ops.same_value(ops.listing(t0, mapping),
                          _listing_of(dom, S, mapping)):
        raise Precondition("base differs from model")
    hist = {st.tid: dict(S)}        # contents as of every tid
    n = len(plan["txns"])
    conns = [SimConnection(st, impl) for _ in range(n)]
    trees = [c.get(oid) for c in conns]
    outcomes = []
    classes = []
    shape0 = None
    for rno, acts in enumerate(plan["rounds"]):
        ran = []
        for act in acts:
            i, txn, sync, sweep = act[0], act[1], act[2], act[3]
            if i >= n:
                continue
            conn = conns[i]
            if sweep != "none":
                conn.sweep(sweep, 2)
            if sync:
                conn.begin()
            Bi = hist[conn.snapshot]
            # a view of the client's snapshot for the monitor and for
            # aiming the symbolic operations
            vc = SimConnection(st, impl)
            vc.snapshot = conn.snapshot
            view = vc.get(oid)
            if not ops.same_value(ops.listing(view, mapping),
                                  _listing_of(dom, Bi, mapping)):
                raise Violation(
                    {"oracle": "occ-outcome", "impl": impl, "kind": kind,
                     "what": "snapshot-view"},
                    "round %d client %d: a fresh connection at snapshot %d "
                    "lists %r, the contents committed then were %r" % (
                        rno, i, conn.snapshot,
                        ops.listing(view, mapping)[:30],
                        _listing_of(dom, Bi, mapping)[:30]))
            vw = walker.walk(view, dom, mapping)
            if shape0 is None:
                shape0 = vw.shape
                ctx.shape(vw.shape)
            concrete = _resolve_symbolic(txn, vw, dom, mapping, Bi,
                                         common.sizes(cfg)[0])
            cold = (plan.get("cold", 0) >> i) & 1
            shadow = view if cold else None
            who = "r%d-t%d" % (rno, i)
            trans = _run_txn(conn, trees[i], concrete, dom, cfg, ctx, who,
                             shadow)
            m = ops.Model(dom, kind)
            m.d = dict(Bi)
            for op in concrete:
                _total(m, op)
            ran.append({"i": i, "ops": concrete, "Bi": Bi,
                        "delta": _diff(Bi, m.d), "snap": conn.snapshot,
                        "class": _struct_class(trans, concrete)})
        seen = set()
        for pos, cl in enumerate(ran):
            i = cl["i"]
            if i in seen:
                continue        # one transaction per client and round
            seen.add(i)
            conn = conns[i]
            sigbase = {"oracle": "occ-outcome", "impl": impl, "kind": kind,
                       "pos": "long"}
            _bulk(sigbase, cl["ops"])
            m = ops.Model(dom, kind)
            m.d = dict(S)
            for op in cl["ops"]:
                _total(m, op)
            serial = m.d
            stale = st.tid != cl["snap"]
            changed_since = set(_diff(cl["Bi"], S))
            merged = None
            if not (set(cl["delta"]) & changed_since):
                merged = _apply_diff(S, cl["delta"])
            nres0 = len(st.resolver_log)
            try:
                conn.commit()
                out = "committed"
            except ReadConflictError:
                out = "read-conflict"
            except ConflictError:
                out = "write-conflict"
            if conn.hazards:
                ctx.probe("abandoned:known-C04-inline-duplicate")
                raise Precondition("known C04 finding: inline-duplicate")
            resolved = len(st.resolver_log) > nres0
            if out == "committed" and resolved:
                out = "resolved"
            ctx.ev("long", rno, "commit", i, out)
            if stale:
                ctx.fault("concurrent-commit")
                ctx.probe("long-stale-by-%d" % min(st.tid - cl["snap"], 4))
            who = "round %d: client %d (snapshot %d, stored %d) %s" % (
                rno, i, cl["snap"], st.tid, out)
            if out.endswith("conflict"):
                if not stale:
                    raise Violation(dict(sigbase, what="first-commit-conflict"),
                                    who + ": nothing was committed since its "
                                    "snapshot, yet it conflicted")
                allowed = [("unchanged", S)]
            else:
                allowed = [("serial", serial)]
                if merged is not None:
                    allowed.append(("merge", merged))
            label, d = _fresh_check(st, oid, dom, cfg, allowed, who, ctx,
                                    sigbase)
            if stale and label in ("serial", "merge"):
                ctx.probe("matched-" + label)
            S = dict(d)
            hist[st.tid] = dict(S)
            if plan.get("viewcheck"):
                try:
                    own = ops.listing(trees[i], mapping)
                except Exception as e:
                    own = repr(e)
                if not ops.same_value(own, _listing_of(dom, S, mapping)):
                    raise Violation(
                        dict(sigbase, what="own-view", after=out.split(
                            "-")[0] if "conflict" in out else "commit"),
                        "%s: afterwards the client's own tree lists %r, "
                        "stored is %r" % (who, own if isinstance(own, str)
                                          else own[:30],
                                          _listing_of(dom, S, mapping)[:30]))
                ctx.probe("own-view-checked")
            # (a conflicting commit aborted and moved the client's snapshot
            # to the current tid, which is in hist as well)
            outcomes.append(out)
            classes.append(cl["class"])
            ctx.probe("outcome-long-" + out)
    ctx.interleaving(("long", tuple(outcomes), tuple(classes)))
    if any(o != "committed" for o in outcomes):
        ctx.nontriv((impl, kind, shape0, "long", tuple(classes),
                     tuple(outcomes)))


def execute(plan, ctx):
    from .. import env
    env.activate(ctx.variant)
    if plan.get("rounds"):
        _long_run(plan, ctx)
        return
    _one_order(plan, plan["order"], ctx, "fwd")
    _one_order(plan, list(reversed(plan["order"])), ctx, "rev")

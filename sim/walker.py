"""Independent structural walker.

Works only from __getstate__() recursion plus _firstbucket/_next; never calls
_check().  Returns a Walk with .problems (list of short codes), .shape (nested
tuple of fan-outs and leaf lengths, keys abstracted), .keys (chain order),
.items (for mappings), .leaves (objects, chain order), .height.
"""


class Walk(object):
    __slots__ = ("problems", "shape", "keys", "items", "leaves", "height",
                 "nodes", "interior", "descent_leaves", "embedded",
                 "subtree_firsts")

    def __init__(self):
        self.problems = []
        self.shape = None
        self.keys = []
        self.items = []
        self.leaves = []
        self.descent_leaves = []
        self.height = 0
        self.nodes = 0
        self.interior = []
        self.embedded = False
        self.subtree_firsts = set()   # id(leaf): first leaf of a non-leftmost
                                      # interior node


def _leaf_state(state, mapping):
    """-> (keys, values or None, next)"""
    if not isinstance(state, tuple) or len(state) not in (1, 2):
        raise ValueError("bad leaf state")
    items = state[0]
    nxt = state[1] if len(state) == 2 else None
    if mapping:
        if len(items) % 2:
            raise ValueError("odd item tuple")
        return list(items[0::2]), list(items[1::2]), nxt
    return list(items), None, nxt


def walk(tree, dom, mapping, max_leaf=None, max_internal=None):
    """tree: a BTree/TreeSet instance (either implementation)."""
    w = Walk()
    sk = dom.sortkey
    tree_type = type(tree)
    state = tree.__getstate__()
    if state is None:
        w.shape = ()
        if tree._firstbucket is not None:
            w.problems.append("empty-tree-has-firstbucket")
        return w

    leafinfo = {}   # id(leaf) -> (keys, values, next)

    def visit(node, st, lo, hi, depth, is_root):
        """returns (shape, first_leaf_obj)"""
        w.nodes += 1
        if not isinstance(st, tuple) or len(st) not in (1, 2):
            w.problems.append("bad-tree-state")
            return ("?",), None
        if len(st) == 1:
            # embedded single leaf: ((leafstate,),)
            w.embedded = True
            leaf = node._firstbucket
            try:
                ks, vs, nxt = _leaf_state(st[0][0], mapping)
            except Exception:
                w.problems.append("bad-leaf-state")
                return ("?",), None
            _leaf(leaf, ks, vs, nxt, lo, hi)
            w.height = max(w.height, depth + 1)
            if max_leaf is not None and len(ks) > max_leaf:
                w.problems.append("leaf-too-big")
            return (len(ks),), leaf
        data, first = st
        n = (len(data) + 1) // 2
        children = list(data[0::2])
        seps = list(data[1::2])
        if n == 0:
            w.problems.append("empty-interior")
            return (), None
        w.interior.append(node)
        if max_internal is not None:
            limit = 2 * max_internal - 1 if is_root else max_internal
            if n > limit:
                w.problems.append("interior-too-big")
        for a, b in zip(seps, seps[1:]):
            if not sk(a) < sk(b):
                w.problems.append("separators-not-increasing")
        for s in seps:
            if lo is not None and sk(s) < sk(lo):
                w.problems.append("separator-below-bound")
            if hi is not None and not sk(s) < sk(hi):
                w.problems.append("separator-above-bound")
        kinds = set(type(c) is tree_type for c in children)
        if len(kinds) > 1:
            w.problems.append("mixed-children")
        shapes = []
        first_leaf = None
        for i, c in enumerate(children):
            clo = seps[i - 1] if i > 0 else lo
            chi = seps[i] if i < len(seps) else hi
            if type(c) is tree_type:
                cst = c.__getstate__()
                if cst is None:
                    w.problems.append("empty-interior")
                    shapes.append(())
                    fl = None
                else:
                    if len(cst) == 1:
                        # a non-root node never uses the embedded form unless
                        # its single leaf has no oid; treat generically
                        pass
                    sh, fl = visit(c, cst, clo, chi, depth + 1, False)
                    shapes.append(sh)
                    if i > 0 and fl is not None:
                        w.subtree_firsts.add(id(fl))
                    if c._firstbucket is not fl:
                        w.problems.append("firstbucket-mismatch")
            else:
                try:
                    ks, vs, nxt = _leaf_state(c.__getstate__(), mapping)
                except Exception:
                    w.problems.append("bad-leaf-state")
                    shapes.append("?")
                    continue
                _leaf(c, ks, vs, nxt, clo, chi)
                w.height = max(w.height, depth + 1)
                if max_leaf is not None and len(ks) > max_leaf:
                    w.problems.append("leaf-too-big")
                shapes.append(len(ks))
                fl = c
            if i == 0:
                first_leaf = fl
        if first is not first_leaf:
            w.problems.append("firstbucket-mismatch")
        return tuple(shapes), first_leaf

    def _leaf(leaf, ks, vs, nxt, lo, hi):
        w.descent_leaves.append(leaf)
        leafinfo[id(leaf)] = (ks, vs, nxt)
        if not ks:
            w.problems.append("empty-leaf")
        for a, b in zip(ks, ks[1:]):
            if not sk(a) < sk(b):
                w.problems.append("leaf-keys-not-increasing")
        for k in ks:
            if lo is not None and sk(k) < sk(lo):
                w.problems.append("key-below-bound")
            if hi is not None and not sk(k) < sk(hi):
                w.problems.append("key-above-bound")

    shape, first_leaf = visit(tree, state, None, None, 0, True)
    w.shape = shape
    if tree._firstbucket is not first_leaf:
        w.problems.append("firstbucket-mismatch")
    # chain walk
    seen = set()
    b = tree._firstbucket
    chain = []
    while b is not None:
        if id(b) in seen:
            w.problems.append("chain-cycle")
            break
        seen.add(id(b))
        chain.append(b)
        info = leafinfo.get(id(b))
        if info is None:
            try:
                info = _leaf_state(b.__getstate__(), mapping)
            except Exception:
                w.problems.append("bad-leaf-state")
                break
            w.problems.append("chain-leaf-not-in-tree")
        ks, vs, nxt = info
        w.keys.extend(ks)
        if vs is not None:
            w.items.extend(zip(ks, vs))
        b = nxt
    w.leaves = chain
    if len(chain) != len(w.descent_leaves) or any(
            a is not b for a, b in zip(chain, w.descent_leaves)):
        if "chain-leaf-not-in-tree" not in w.problems:
            w.problems.append("chain-differs-from-descent")
    for a, b in zip(w.keys, w.keys[1:]):
        if not sk(a) < sk(b):
            w.problems.append("chain-keys-not-increasing")
            break
    # (a recursive closure is a reference cycle: function -> cell -> function;
    # with the collector switched off it would keep leafinfo -- and through
    # it every node of the tree -- alive for the rest of the run, so that no
    # evicted node would ever really be freed)
    visit = None
    leafinfo.clear()
    return w


def descent_path(tree, key, dom):
    """interior nodes (objects) visited when descending for `key`, root first;
    computed from states only."""
    sk = dom.sortkey
    path = []
    node = tree
    tree_type = type(tree)
    while True:
        st = node.__getstate__()
        if st is None or len(st) == 1:
            path.append(node)
            return path
        path.append(node)
        data = st[0]
        children = list(data[0::2])
        seps = list(data[1::2])
        i = 0
        for j, s in enumerate(seps):
            if sk(s) <= sk(key):
                i = j + 1
        c = children[i]
        if type(c) is tree_type:
            node = c
        else:
            return path


def transitions(old, new):
    """classify the structural change between two walks of the same tree
    (leaf identity based); returns a list of short probe names"""
    out = []
    if old is None:
        return out
    if new.height > old.height:
        out.append("height+")
    elif new.height < old.height:
        out.append("height-")
    oldids = [id(b) for b in old.leaves]
    newids = [id(b) for b in new.leaves]
    ns = set(newids)
    os_ = set(oldids)
    if oldids and not newids:
        out.append("tree-emptied")
    added = [i for i in newids if i not in os_]
    removed = [i for i in oldids if i not in ns]
    if added and oldids:
        out.append("leaf-split")
    for r in removed:
        if not newids:
            break
        if r == oldids[0]:
            out.append("unlink-first-leaf")
        elif r == oldids[-1]:
            out.append("unlink-last-leaf")
        else:
            out.append("unlink-middle-leaf")
        if r in old.subtree_firsts:
            out.append("unlink-across-subtrees")
    if len(new.interior) > len(old.interior):
        out.append("interior-added")
    elif len(new.interior) < len(old.interior):
        out.append("interior-removed")
    if len(new.interior) > 1 and isinstance(new.shape, tuple) and \
            len(new.shape) == 1:
        out.append("root-single-child")
    if old.embedded != new.embedded:
        out.append("embedded-toggle")
    return out

"""Generates /verif/MANIFEST.json from the scenario modules that exist."""
import importlib
import json
import os
import sys

VERIF = os.path.dirname(os.path.dirname(os.path.abspath(__file__)))
sys.path.insert(0, VERIF)

NA = {
    "C10": "pure function of two operands (union/intersection/difference "
           "result): no schedule, clock, fault, crash point or history for a "
           "simulator to own; input generation is property-based testing, "
           "not simulation. The code still runs inside C05/C09/C14/C16/C17 "
           "runs with those properties' oracles.",
    "C11": "pure function of its input list (multiunion); the interesting "
           "dimension is input size and bit patterns, an input-generation "
           "problem with no schedule or fault in it.",
    "C12": "pure function of two operands and two weights (weighted union / "
           "intersection formula); nothing to schedule or to fail.",
    "C13": "pure function of one offered value per entry point "
           "(representability of keys and values); no history, schedule or "
           "fault dimension.",
}

TEXT = {
    "C01": ("exploration",
            "Fault-free configuration of the simulator: seeded call histories "
            "over all 22 families x 4 kinds x 2 implementations x node sizes "
            "x transient/stored, checked op-by-op against a reference sorted "
            "map/set. Sampling; a clean batch is evidence, not proof.",
            "op-by-op refinement against a reference model under a seeded "
            "history generator (fault-free configuration of the simulator)"),
    "C19": ("exploration",
            "Seeded schedules of 2-6 concurrent committers on one stored "
            "Length through the simulated MVCC storage and its conflict "
            "resolver seam, both commit orders, crash between vote and "
            "finish; conservation oracle final == initial + sum of deltas.",
            "deterministic simulation of concurrent committers with seeded "
            "commit order and crash-in-2pc injection; conservation oracle"),
}

SECTION = {p: "4 (%s)" % p for p in
           ["C01", "C02", "C03", "C04", "C05", "C06", "C07", "C08", "C09",
            "C14", "C15", "C16", "C17", "C18", "C19"]}

NOTE = ("Trusted base: the ZODB stub in sim/world.py (Connection, MVCC "
        "storage, 2PC, tryToResolveConflict, PersistentReference), the "
        "reference model / walker in sim/, CPython, persistent 6.8, the "
        "compilers. Seeded sampling: absence of a violation in the batch is "
        "evidence, not proof.")


def main():
    from sim import core
    props = [json.loads(line)["id"]
             for line in open(os.path.join(VERIF, "properties.jsonl"))]
    checks = []
    na = []
    for p in props:
        if p in NA:
            na.append({"property_id": p, "reason": NA[p]})
            continue
        try:
            scn = importlib.import_module("sim.scenarios." + core.SCENARIOS[p])
        except ImportError:
            na.append({"property_id": p, "reason":
                       "claimed in DESIGN.md but its check is not built yet "
                       "(work in progress; not claimed until it runs)"})
            continue
        level = getattr(scn, "LEVEL", {})
        cat = level.get("thorough", level.get("quick", "exploration"))
        text = getattr(scn, "LEVEL_TEXT", None) or TEXT.get(p, (None, ""))[1]
        tech = getattr(scn, "TECHNIQUE", None) or TEXT.get(p, (0, 0, ""))[2]
        checks.append({
            "property_id": p,
            "quick_cmd": "./check %s --tier quick" % p,
            "thorough_cmd": "./check %s --tier thorough" % p,
            "evidence_file": "evidence/%s.json" % p,
            "replay_cmd_template": "./check %s --replay {path}" % p,
            "engine": "sim",
            "level_claimed": {"category": cat, "text": text,
                              "design_ref": "DESIGN.md section " + SECTION[p]},
            "level_note": NOTE + " " + " ".join(
                getattr(scn, "ASSUMPTIONS", [])),
            "technique": tech,
        })
    man = {
        "version": 1,
        "setup_cmd": "/venv/bin/python sim/build.py --all",
        "hooks": {
            "guard": "BTREES_VERIF",
            "enable": "checks compile /repo/src/BTrees/_*.c themselves with "
                      "-DBTREES_VERIF=1 into /verif/.build (equivalent to "
                      "BTREES_VERIF=1 python setup.py build_ext)",
            "baseline_off_cmd":
                "cd /repo && env -u BTREES_VERIF /venv/bin/python setup.py -q "
                "build_ext --inplace -j16 && /venv/bin/python -m pytest -ra "
                "-q -p no:cacheprovider --timeout=900 "
                "--continue-on-collection-errors",
            "source_commits": open(os.path.join(
                VERIF, "hook_commits.txt")).read().split(),
            "add_only": True,
        },
        "engines": [{
            "name": "sim", "path": "sim/",
            "serves_properties": [c["property_id"] for c in checks],
            "kind_free_text": "deterministic simulation with fault "
                              "injection: seeded plan-then-execute runner, "
                              "stub ZODB world around the real persistent "
                              "cache and the real BTrees code (C and "
                              "Python), reference model + structural walker "
                              "oracles, ddmin minimiser, replay files",
        }],
        "checks": checks,
        "not_applicable": na,
        "notes": "See DESIGN.md. known_findings.json lists genuine defects "
                 "recorded rather than repaired, and fixed ones.",
    }
    with open(os.path.join(VERIF, "MANIFEST.json"), "w") as f:
        json.dump(man, f, indent=1)
    print("MANIFEST.json: %d checks, %d not applicable" % (len(checks),
                                                          len(na)))


if __name__ == "__main__":
    main()

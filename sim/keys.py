"""Key and value classes used where the simulator needs a seam *inside* an
operation: every rich comparison of an HK key calls the simulator's hook,
which can raise (cmp-raise fault) or sweep the cache (evict-in-compare fault).

TV is a tracked value: totally ordered (the C merge compares values with <),
no hook.  Both count their live instances for the leak ledger.
"""


class SimCompareError(Exception):
    """The exception a faulted key comparison raises."""


class _Hook(object):
    __slots__ = ("count", "fire_at", "action", "fired", "enabled", "every")

    def __init__(self):
        self.reset()

    def reset(self):
        self.count = 0        # comparisons seen since arm()
        self.fire_at = 0      # 0: disarmed
        self.action = None
        self.fired = 0
        self.enabled = False
        self.every = False

    def arm(self, n, action, every=False):
        """action() at the n-th comparison from now (every=True: at the
        n-th and at every later one)"""
        self.count = 0
        self.fire_at = n
        self.action = action
        self.fired = 0
        self.enabled = True
        self.every = every

    def counting(self):
        self.count = 0
        self.fire_at = 0
        self.action = None
        self.fired = 0
        self.enabled = True
        self.every = False

    def disarm(self):
        self.enabled = False
        self.fire_at = 0
        self.action = None
        self.every = False


HOOK = _Hook()


def _tick():
    h = HOOK
    if h.enabled:
        h.count += 1
        if h.count == h.fire_at:
            h.fired += 1
            act = h.action
            if h.every:
                h.fire_at = h.count + 1
                h.enabled = False       # (not from inside the action)
                try:
                    act()
                finally:
                    h.enabled = h.action is not None
            else:
                h.fire_at = 0
                act()


class HK(object):
    """Hooked key; ordered by .n"""
    __slots__ = ("n",)
    live = 0

    def __new__(cls, n=0):
        o = object.__new__(cls)
        HK.live += 1
        return o

    def __init__(self, n=0):
        self.n = n

    def __del__(self):
        HK.live -= 1

    def __lt__(self, o):
        _tick()
        return self.n < o.n

    def __gt__(self, o):
        _tick()
        return self.n > o.n

    def __le__(self, o):
        _tick()
        return self.n <= o.n

    def __ge__(self, o):
        _tick()
        return self.n >= o.n

    def __eq__(self, o):
        _tick()
        return type(o) is HK and self.n == o.n

    def __ne__(self, o):
        _tick()
        return not (type(o) is HK and self.n == o.n)

    def __hash__(self):
        return hash(self.n)

    def __reduce__(self):
        return (HK, (self.n,))

    def __repr__(self):
        return "HK(%d)" % self.n


class TV(object):
    """Tracked value; ordered by .n; no hook."""
    __slots__ = ("n",)
    live = 0

    def __new__(cls, n=0):
        o = object.__new__(cls)
        TV.live += 1
        return o

    def __init__(self, n=0):
        self.n = n

    def __del__(self):
        TV.live -= 1

    def __lt__(self, o):
        return self.n < o.n

    def __gt__(self, o):
        return self.n > o.n

    def __le__(self, o):
        return self.n <= o.n

    def __ge__(self, o):
        return self.n >= o.n

    def __eq__(self, o):
        return type(o) is TV and self.n == o.n

    def __ne__(self, o):
        return not (type(o) is TV and self.n == o.n)

    def __hash__(self):
        return hash((0x5456, self.n))     # (no str: its hash is seeded)

    def __reduce__(self):
        return (TV, (self.n,))

    def __repr__(self):
        return "TV(%d)" % self.n


class _Final(object):
    """What a dying FV / FK does: call `action(obj)` (set by the scenario);
    exceptions stay inside (a finalizer cannot propagate them anyway)."""
    __slots__ = ("action", "fired", "busy", "notes")

    def __init__(self):
        self.action = None
        self.fired = 0
        self.busy = False
        self.notes = []


FINAL = _Final()


def _finalize(obj):
    f = FINAL
    if f.action is None or f.busy:
        return
    f.busy = True
    try:
        f.fired += 1
        f.action(obj)
    except Exception:
        pass
    finally:
        f.busy = False


class CV(TV):
    """Cycle value: a tracked value that refers BACK to the container it is
    stored in (`doc.index = tree; tree[k] = doc`), so that container and
    value can only be released by the cycle collector -- through the
    extension's tp_traverse / tp_clear."""
    __slots__ = ("back",)


class FV(object):
    """Finalizing value: a fresh object stored under one key and referenced
    by nothing else, so it dies INSIDE the operation that drops it (replace,
    delete, clear, eviction, __setstate__) -- and its __del__ calls back into
    the simulator, which re-enters the container.  Ordered by .n."""
    __slots__ = ("n",)
    live = 0

    def __new__(cls, n=0):
        o = object.__new__(cls)
        FV.live += 1
        return o

    def __init__(self, n=0):
        self.n = n

    def __del__(self):
        FV.live -= 1
        _finalize(self)

    def __lt__(self, o):
        return self.n < o.n

    def __gt__(self, o):
        return self.n > o.n

    def __le__(self, o):
        return self.n <= o.n

    def __ge__(self, o):
        return self.n >= o.n

    def __eq__(self, o):
        return type(o) is FV and self.n == o.n

    def __ne__(self, o):
        return not (type(o) is FV and self.n == o.n)

    def __hash__(self):
        return hash((0x4656, self.n))

    def __reduce__(self):
        return (FV, (self.n,))

    def __repr__(self):
        return "FV(%r)" % (self.n,)


class FK(object):
    """Finalizing key: like FV, usable next to HK keys (ordered by .n; an FK
    gets a fractional n so that it never equals a universe key)."""
    __slots__ = ("n",)
    live = 0

    def __new__(cls, n=0):
        o = object.__new__(cls)
        FK.live += 1
        return o

    def __init__(self, n=0):
        self.n = n

    def __del__(self):
        FK.live -= 1
        _finalize(self)

    def __lt__(self, o):
        _tick()
        return self.n < o.n

    def __gt__(self, o):
        _tick()
        return self.n > o.n

    def __le__(self, o):
        _tick()
        return self.n <= o.n

    def __ge__(self, o):
        _tick()
        return self.n >= o.n

    def __eq__(self, o):
        _tick()
        return type(o) is FK and self.n == o.n

    def __ne__(self, o):
        _tick()
        return not (type(o) is FK and self.n == o.n)

    def __hash__(self):
        return hash((0x464b, self.n))

    def __reduce__(self):
        return (FK, (self.n,))

    def __repr__(self):
        return "FK(%r)" % (self.n,)

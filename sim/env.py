"""Process bootstrap: put the overlay build first on sys.path and import BTrees
from it; assert that what got imported really is the overlay."""
import os
import sys

from . import build

_loaded = {}


def activate(variant="plain"):
    """Import BTrees from the overlay.  Returns the BTrees package."""
    if "BTrees" in sys.modules:
        mod = sys.modules["BTrees"]
        if _loaded.get("variant") != variant:
            raise RuntimeError("BTrees already imported from %r" %
                               getattr(mod, "__file__", None))
        return mod
    root = build.ensure(variant)
    sys.path.insert(0, root)
    os.environ.pop("PURE_PYTHON", None)
    import BTrees
    assert BTrees.__file__.startswith(root), BTrees.__file__
    for fam in build.FAMILIES:
        m = sys.modules["BTrees.%sBTree" % fam]
        c = sys.modules.get("BTrees._%sBTree" % fam)
        assert c is not None and c.__file__.startswith(root), (fam, c)
        assert getattr(m, fam + "BTree") is not getattr(m, fam + "BTreePy")
        assert hasattr(c, "_verif_alloc_arm"), "hooks not compiled in"
    _loaded["variant"] = variant
    _loaded["root"] = root
    return BTrees


def child_env(variant):
    """Environment for a worker subprocess of the given build variant."""
    env = dict(os.environ)
    env["VERIF_OVERLAY_" + variant.upper()] = build.ensure(variant)
    env["PYTHONHASHSEED"] = "0"
    env.pop("PURE_PYTHON", None)
    if variant == "asan":
        env["LD_PRELOAD"] = build.asan_runtime()
        env["ASAN_OPTIONS"] = ("detect_leaks=0:abort_on_error=1:"
                               "allocator_may_return_null=1:"
                               "handle_segv=1:symbolize=1")
        env["UBSAN_OPTIONS"] = "print_stacktrace=1:halt_on_error=1"
        env["PYTHONMALLOC"] = "malloc"
    return env

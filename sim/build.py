"""Build the BTrees C extension from /repo's *working tree* into an overlay.

The overlay is a directory  /verif/.build/<variant>-<hash>/BTrees/  holding
copies of the working tree's *.py plus freshly compiled _XXBTree*.so files,
compiled with -DBTREES_VERIF=1 (the guarded hooks).  The prebuilt .so files in
/repo/src/BTrees are never used (they are stale after any edit, and absent after
a fresh restore).

variants:
  plain : gcc  -O2 -DNDEBUG                      (production-like)
  asan  : clang -O1 -g -fsanitize=address,undefined -UNDEBUG (asserts on)
"""
import hashlib
import os
import shutil
import subprocess
import sys
import sysconfig
from concurrent.futures import ThreadPoolExecutor

REPO = os.environ.get("VERIF_REPO", "/repo")
VERIF = os.path.dirname(os.path.dirname(os.path.abspath(__file__)))
BUILD_ROOT = os.path.join(VERIF, ".build")

FAMILIES = ("IO II IF IU UO UU UF UI LO LL LF LQ QO QQ QF QL "
            "OO OI OU OL OQ fs").split()

EXT_SUFFIX = sysconfig.get_config_var("EXT_SUFFIX")
PY_INC = sysconfig.get_paths()["include"]


def _src_files():
    d = os.path.join(REPO, "src", "BTrees")
    out = []
    for fn in sorted(os.listdir(d)):
        if fn.endswith((".c", ".h", ".py")):
            out.append(os.path.join(d, fn))
    inc = os.path.join(REPO, "include", "persistent", "persistent")
    for fn in sorted(os.listdir(inc)):
        out.append(os.path.join(inc, fn))
    return out


def source_hash():
    h = hashlib.sha256()
    with open(os.path.abspath(__file__), "rb") as f:
        h.update(f.read())      # (the compiler flags are part of a build)
    for p in _src_files():
        h.update(p.encode())
        with open(p, "rb") as f:
            h.update(f.read())
    return h.hexdigest()[:16]


def asan_runtime():
    return subprocess.check_output(
        ["clang", "-print-file-name=libclang_rt.asan-x86_64.so"],
        text=True).strip()


def _compile(variant, fam, outdir):
    src = os.path.join(REPO, "src", "BTrees", "_%sBTree.c" % fam)
    out = os.path.join(outdir, "_%sBTree%s" % (fam, EXT_SUFFIX))
    common = ["-fPIC", "-shared", "-fno-strict-overflow", "-fwrapv",
              "-DBTREES_VERIF=1",
              "-I" + os.path.join(REPO, "include", "persistent"),
              "-I" + os.path.join(REPO, "src", "BTrees"),
              "-I" + PY_INC, "-w"]
    if fam[0] != "O":
        common.append("-DEXCLUDE_INTSET_SUPPORT")
    if variant == "plain":
        cmd = ["gcc", "-O2", "-DNDEBUG"] + common
    elif variant == "asan":
        cmd = ["clang", "-O1", "-g", "-fno-omit-frame-pointer", "-UNDEBUG",
               "-fsanitize=address,undefined",
               "-fno-sanitize=signed-integer-overflow,shift,"
               "float-cast-overflow,float-divide-by-zero,"
               # (memcpy(dst, NULL, 0) for an empty fs bucket: formally a
               # null argument, no memory is touched -- not C16's business;
               # with a non-zero size the process dies anyway)
               "nonnull-attribute",
               "-fno-sanitize-recover=undefined",
               "-shared-libasan"] + common
    else:
        raise ValueError(variant)
    cmd += [src, "-o", out]
    r = subprocess.run(cmd, capture_output=True, text=True)
    if r.returncode != 0:
        raise RuntimeError("compile failed for %s/%s:\n%s\n%s"
                           % (variant, fam, " ".join(cmd), r.stderr[-4000:]))
    return out


def ensure(variant="plain", quiet=True):
    """Return the overlay root (directory to put on sys.path)."""
    pinned = os.environ.get("VERIF_OVERLAY_" + variant.upper())
    if pinned and os.path.exists(os.path.join(pinned, ".ok")):
        # a worker uses the overlay its parent built, even if the working
        # tree is being edited while the check runs
        return pinned
    h = source_hash()
    root = os.path.join(BUILD_ROOT, "%s-%s" % (variant, h))
    pkg = os.path.join(root, "BTrees")
    stamp = os.path.join(root, ".ok")
    if os.path.exists(stamp):
        return root
    os.makedirs(BUILD_ROOT, exist_ok=True)
    # drop older builds of this variant
    import time
    for d in os.listdir(BUILD_ROOT):
        if d.startswith(variant + "-") and d != os.path.basename(root):
            full = os.path.join(BUILD_ROOT, d)
            try:
                age = time.time() - os.path.getmtime(full)
            except OSError:
                continue
            # (a fresh .tmp directory belongs to a build in progress; a
            # finished overlay may be in use by a check that is running)
            if age > (900 if ".tmp" in d else 7200):
                shutil.rmtree(full, ignore_errors=True)
    tmp = root + ".tmp%d" % os.getpid()
    shutil.rmtree(tmp, ignore_errors=True)
    tpkg = os.path.join(tmp, "BTrees")
    os.makedirs(tpkg)
    srcdir = os.path.join(REPO, "src", "BTrees")
    for fn in os.listdir(srcdir):
        if fn.endswith(".py"):
            shutil.copy(os.path.join(srcdir, fn), os.path.join(tpkg, fn))
    with ThreadPoolExecutor(16) as ex:
        list(ex.map(lambda fam: _compile(variant, fam, tpkg), FAMILIES))
    with open(os.path.join(tmp, ".ok"), "w") as f:
        f.write(h)
    try:
        os.rename(tmp, root)
    except OSError:
        # somebody else built it concurrently
        shutil.rmtree(tmp, ignore_errors=True)
    if not quiet:
        print("built %s overlay at %s" % (variant, root))
    return root


if __name__ == "__main__":
    variants = ["plain", "asan"] if "--all" in sys.argv else ["plain"]
    for v in variants:
        print(ensure(v, quiet=False))

#!/venv/bin/python
"""Determinism self-test of the simulator.

  selftest/determinism.py [N=400] [props...]

For every scenario the first N seeds (quick tier, VERIF_SEED=0) are executed
three times in worker subprocesses: PYTHONHASHSEED=0 in one chunk,
PYTHONHASHSEED=0 split over 7 chunks run concurrently, PYTHONHASHSEED=12345 in
one chunk.  All event-log digests must agree.  Exit 0 / 1.
"""
import json, os, shutil, sys
HERE = os.path.dirname(os.path.dirname(os.path.abspath(__file__)))
sys.path.insert(0, HERE)
from sim import build, runner   # noqa: E402

ALL = "C01 C02 C03 C04 C05 C06 C07 C08 C09 C14 C15 C16 C17 C18 C19".split()


def digests(pool, prop, start, count, hashseed):
    h = pool.spawn({"kind": "batch", "prop": prop, "tier": "quick",
                    "root_seed": 0, "start": start, "count": count,
                    "digest_upto": start + count, "hang_s": 900,
                    "known": [], "max_violations": 10 ** 9}, "plain",
                   hashseed=hashseed)
    return h


def main():
    args = sys.argv[1:]
    n = int(args[0]) if args and args[0].isdigit() else 400
    props = [a for a in args if not a.isdigit()] or ALL
    build.ensure("plain")
    work = os.path.join(build.BUILD_ROOT, "determinism-%d" % os.getpid())
    os.makedirs(work, exist_ok=True)
    pool = runner.Pool(work)
    bad = 0
    try:
        for prop in props:
            hs = [("one-chunk/hash0", [digests(pool, prop, 0, n, "0")]),
                  ("one-chunk/hash12345", [digests(pool, prop, 0, n, "12345")])]
            step = (n + 6) // 7
            hs.append(("7-chunks/hash0", [
                digests(pool, prop, s, min(step, n - s), "0")
                for s in range(0, n, step)]))
            res = {}
            for name, handles in hs:
                d = {}
                for h in handles:
                    h["p"].wait()
                    kind, out = pool.result(h)
                    if kind != "ok":
                        print(prop, name, "worker failed:", kind, str(out)[-500:])
                        bad += 1
                        continue
                    d.update(out["digests"])
                res[name] = d
            ref = res["one-chunk/hash0"]
            badp = 0
            for name, d in res.items():
                diff = [k for k in ref if d.get(k) != ref[k]]
                missing = [k for k in ref if k not in d]
                if diff or missing:
                    bad += 1
                    badp += 1
                    print("%s: %s DIFFERS from one-chunk/hash0 at seeds %s" % (
                        prop, name, sorted(map(int, diff))[:10]))
            print("%s: %d seeds x 3 configurations: %s" % (
                prop, len(ref), "identical" if not badp else "DIFFERENT"))
            sys.stdout.flush()
    finally:
        shutil.rmtree(work, ignore_errors=True)
    return 1 if bad else 0


if __name__ == "__main__":
    sys.exit(main())
